import warnings, sys; warnings.simplefilter('ignore')
sys.path.insert(0, sys.argv[1])
from serif import Vector, Table, AliasError
def count(mk, n=2):
    t = mk()
    bad=0
    for i in range(300):
        v = Vector(list(range(n)))
        try: v[0] = 5
        except AliasError: bad+=1
    return bad
a=Vector([1,2]); b=Vector([3,4]); base=Table({'a':[1,2],'b':[3,4]})
print('v>>v', count(lambda: a >> b))
print('t>>v', count(lambda: base >> b))
print('t>>list', count(lambda: base >> [5,6]))
print('slice', count(lambda: base[0:1]))
print('mask', count(lambda: base[[True,False]]))
print('Vector([v,v])', count(lambda: Vector([a,b])))
print('Vector((v,v))', count(lambda: Vector((a,b))))
def sa():
    t=Table({'a':[1,2],'b':[3,4]}); t.a=[9,9]; return t
print('setattr', count(sa))
for n in (1,2,3):
    print('n',n,'t>>v', count(lambda: base >> b, n), 'v>>v', count(lambda: a>>b, n), 'setattr', count(sa,n))
