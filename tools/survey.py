#!/venv/bin/python
"""development aid: run N runs of a check and print the violation groups (no minimisation)"""
import os, sys, json
if os.environ.get("PYTHONHASHSEED") != "0":
    os.environ["PYTHONHASHSEED"] = "0"; os.execv(sys.executable, [sys.executable] + sys.argv)
ROOT = os.path.dirname(os.path.dirname(os.path.abspath(__file__)))
sys.path.insert(0, ROOT); sys.path.insert(0, os.environ.get("SERIF_SRC", "/repo/src"))
from simkit.runner import run_many
from simkit import findings
check, n = sys.argv[1], int(sys.argv[2])
seed = int(sys.argv[3]) if len(sys.argv) > 3 else 0
agg = run_many("simkit.checks", "run_index", check, seed, range(n))
for e in agg.errors[:5]: print("ERROR", e["idx"], e["error"][:1500])
groups = {}
for res in agg.violating:
    for v in res["violations"]:
        k = (v["clause"], json.dumps(v["sig"], sort_keys=True))
        g = groups.setdefault(k, [0, v["detail"], res["idx"], findings.match(v) is not None])
        g[0] += 1
for (clause, sig), (cnt, detail, idx, known) in sorted(groups.items(), key=lambda kv: -kv[1][0]):
    print("%4d %s %s%s\n       sig=%s\n       e.g. run %d: %s" % (cnt, clause, "", " [KNOWN]" if known else "", sig, idx, detail[:400]))
print("runs", agg.runs, "steps", agg.steps, "states", len(agg.states), "violating runs", len(agg.violating))
for k in ("exc", "faults", "probes", "outcomes"):
    print(k, dict(agg.stats.get(k, {})))
