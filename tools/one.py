#!/venv/bin/python
"""development aid: run one index of a check in-process and print its trace and violations"""
import os, sys, json
if os.environ.get("PYTHONHASHSEED") != "0":
    os.environ["PYTHONHASHSEED"] = "0"; os.execv(sys.executable, [sys.executable] + sys.argv)
ROOT = os.path.dirname(os.path.dirname(os.path.abspath(__file__)))
sys.path.insert(0, ROOT); sys.path.insert(0, os.environ.get("SERIF_SRC", "/repo/src"))
from simkit import checks
check, idx = sys.argv[1], int(sys.argv[2])
seed = int(sys.argv[3]) if len(sys.argv) > 3 else 0
res = checks.run_index(check, seed, idx)
for i, r in enumerate(res["trace"]): print(i, json.dumps(r))
for v in res["violations"]: print("VIOL", v["step"], v["clause"], v["detail"], v["sig"])
