#!/bin/bash
# verify a sub-agent mutant: tools/verify_mut.sh <worktree> <i>
# (1) applies cleanly to a clean scratch copy of /repo HEAD, (2) tests pass with it, (3) demo fails with it, (4) demo passes without it
WT=$1; I=$2
TMP=$(mktemp -d /tmp/vmut.XXXXXX)
git -C /repo archive HEAD | tar -x -C "$TMP"
cd "$TMP"
PYTHONPATH=$TMP/src /venv/bin/python "$WT/_out/m${I}_demo.py" >/dev/null 2>&1; echo "demo on clean: rc=$? (want 0)"
git apply "$WT/_out/m$I.diff" || { echo "APPLY FAILED"; rm -rf "$TMP"; exit 1; }
PYTHONPATH=$TMP/src /venv/bin/python -m pytest -q -p no:cacheprovider -x 2>&1 | tail -1
PYTHONPATH=$TMP/src /venv/bin/python "$WT/_out/m${I}_demo.py" >/dev/null 2>&1; echo "demo with change: rc=$? (want !=0)"
cd /; rm -rf "$TMP"
