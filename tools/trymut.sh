#!/bin/bash
# development aid: run checks against a scratch copy of /repo/src with a patch applied
# usage: tools/trymut.sh <patch.diff> <runs> <check> [<check> ...]
set -u
PATCH=$(realpath "$1"); RUNS=$2; shift 2
TMP=$(mktemp -d /tmp/trymut.XXXXXX)
cp -r /repo/src "$TMP/src"
( cd "$TMP" && git apply --unsafe-paths -p1 "$PATCH" 2>/dev/null || patch -s -p1 < "$PATCH" ) || { echo "PATCH-FAILED"; rm -rf "$TMP"; exit 3; }
for c in "$@"; do
  out=$(cd /verif && SERIF_SRC="$TMP/src" timeout 1200 bin/check "$c" --runs "$RUNS" --no-resample 2>&1)
  rc=$?
  echo "== $c rc=$rc :: $(echo "$out" | grep -E '^violation|HARNESS' | head -3 | cut -c1-300)"
done
rm -rf "$TMP"
