"""C01 - value semantics: writes stay local, read-only operations are pure.

Self-relative oracle: every object the program holds is snapshotted before each step;
after it only the objects the step is entitled to change (by *role*, not by identity)
may differ. Says nothing about what the written object should now contain.
"""
from simkit.engine import Oracle, Violation
from simkit.world import diff_path, what_changed, snap_input


class C01(Oracle):
    prop = "C01"

    def before(self, env, rec):
        return {k: snap_input(v) for k, v in env.world.inputs.items()}

    def after(self, env, rec, out, ctx, pre):
        if out["st"] == "skip":
            return []
        w = env.world
        viols = []
        # caller-held plain inputs are never the library's to change
        for k, s in pre.items():
            if k in w.inputs and snap_input(w.inputs[k]) != s:
                viols.append(Violation("C01", "C01/operand-changed",
                                       "step %s changed the caller's own input object %s" % (rec["op"], k),
                                       {"op": rec["op"], "victim": "input"}))
        sealed = ctx.extra.get("sealed") if ctx is not None else None
        if sealed is not None:
            env.probe("c01_sealed_row_opened")
            if not sealed["ok"]:
                viols.append(Violation("C01", "C01/held-row-changed",
                                       "a row taken from a table and first looked at later (%s) shows %r; the table held %r in that "
                                       "row when it was taken" % (sealed["how"], sealed["got"], sealed["expected"]),
                                       {"op": "rowopen", "how": sealed["how"]}))
        changed = [eid for eid, s in env.prev.items() if eid in env.cur and env.cur[eid] != s]
        if not changed:
            return viols
        kind = out["kind"]
        writer = w.entries.get(out["writer"]) if out["writer"] is not None else None
        if kind in ("write", "rename"):
            if out["st"] == "exc" and out["exc"] == "AliasError":
                ent = set()
                clause = "C01/refused-but-changed"
            else:
                ent = w.entitled(writer) if writer is not None else set()
                clause = "C01/other-changed"
            env.probe("c01_write_checked")
            if writer is not None and writer.role[0] == "view":
                env.probe("c01_write_via_view")
                if writer.depth >= 2:
                    env.probe("c01_write_via_view_of_derived_table")
        else:
            ent = set()
            clause = "C01/operand-changed"
        for eid in changed:
            if eid in ent:
                continue
            victim = w.entries.get(eid)
            if victim is None:
                continue
            what = what_changed(env.prev[eid], env.cur[eid])
            same_obj = writer is not None and victim.obj is writer.obj
            sig = {"op": rec["op"], "kind": kind,
                   "writer_role": writer.role[0] if writer is not None else None,
                   "victim_role": victim.role[0], "victim_is_table": victim.is_table,
                   "victim_born": victim.born.split(":")[0], "what": what, "same_object": same_obj,
                   "st": out["st"]}
            viols.append(Violation(
                "C01", clause,
                "%s through %s (%s) changed %s of %s (%s, born by %s) at %s" % (
                    rec["op"], w.name_of(writer) if writer is not None else "-",
                    writer.role[0] if writer is not None else kind,
                    what, w.name_of(victim), victim.role[0], victim.born,
                    diff_path(env.prev[eid], env.cur[eid])), sig))
        return viols
