"""C15 - alias tracking is exact: no leaked write, no spurious refusal.

AliasError on a write => another not-yet-collected vector really shares the target's
storage. Ground truth is read from the interpreter (every live Vector instance, by
storage identity); a small shadow model of sharing classes (vectors built over one
caller tuple) provides the leak check and the reach probes. The converse (a sharer
must be refused) is not demanded. Empty vectors are counted, not gated.
"""
import gc
import weakref

from simkit.engine import Oracle, Violation
from simkit.world import serif

_MISSING = object()


def _storage(v):
    try:
        d = object.__getattribute__(v, "__dict__")
    except Exception:
        return _MISSING
    return d.get("_underlying", _MISSING)


def real_sharers(target):
    """live Vector instances (other than target) whose element storage *is* target's.
    Returns None when the ground truth cannot be read (storage attribute missing)."""
    S = serif()
    st = _storage(target)
    if st is _MISSING:
        return None
    out = []
    for o in gc.get_objects():
        if isinstance(o, S.Vector) and o is not target:
            if _storage(o) is st:
                out.append(o)
    return out


class _ObjMap:
    """object -> value, keyed by identity and validated by a weak reference (Vectors are unhashable)"""

    def __init__(self):
        self.d = {}

    def get(self, obj, default=None):
        ent = self.d.get(id(obj))
        if ent is not None and ent[0]() is obj:
            return ent[1]
        return default

    def __setitem__(self, obj, val):
        self.d[id(obj)] = (weakref.ref(obj), val)

    def __contains__(self, obj):
        return self.get(obj) is not None

    def pop(self, obj, default=None):
        v = self.get(obj, default)
        self.d.pop(id(obj), None)
        return v


class C15(Oracle):
    prop = "C15"

    def start(self, env):
        self.classes = {}     # tag -> [weakref to vectors built over that caller tuple, not yet written]
        self.tag_of = _ObjMap()      # object -> tag (several world entries may hold one object)
        self.dropped = []            # (weakref, step) of objects the program let go of
        self.last_collect = -1

    def before(self, env, rec):
        return {e.eid: weakref.ref(e.obj) for e in env.world.live_entries()}

    def _overdue(self, w, sharers, held):
        """True if there are sharers and every one of them should have been collected already"""
        S = serif()
        if not sharers:
            return False
        for s in sharers:
            if id(s) in held:
                return False
            rec = [st for (r, st) in self.dropped if r() is s]
            if not rec or max(rec) >= self.last_collect:
                return False         # never a program value, or let go after the last collection
            # still reachable through something the program holds (a column of a held table, an
            # element of a held vector of vectors)?
            holders = [x.obj for x in w.live_entries() if "row" not in x.tags]
            # objects let go *after* the last collection may still be alive legitimately (parked in a
            # cycle, not yet collected) and so may whatever they hold
            holders += [r() for (r, st) in self.dropped if st >= self.last_collect and r() is not None]
            for h in holders:
                try:
                    inner = h.cols() if isinstance(h, S.Table) else list(h)
                except Exception as ex:
                    inner = []
                    ex = None
                if any(c is s for c in inner):
                    return False
        return True

    def _addressed(self, t, cols, key):
        """indices of the columns a table item assignment addresses (None: cannot tell)"""
        nc = len(cols)
        if key is None:
            return list(range(nc))
        k = key.get("k")

        def one(x):
            if isinstance(x, bool):
                return None
            if isinstance(x, int):
                return x % nc if -nc <= x < nc else None
            if isinstance(x, str):
                try:
                    c = t[x]
                except Exception:
                    return None
                hit = [j for j in range(nc) if cols[j] is c]
                return hit[0] if len(hit) == 1 else None
            return None
        if k == "int":
            j = one(key["i"])
            return None if j is None else [j]
        if k == "slice":
            return list(range(nc))[slice(key.get("a"), key.get("b"), key.get("s"))]
        if k == "str":
            j = one(key["v"])
            return None if j is None else [j]
        if k == "mixed":
            js = [one(x) for x in key["v"]]
            return None if any(j is None for j in js) else js
        return None

    def _table_refusal(self, env, rec, out):
        """an item assignment on a table was refused with AliasError: some column it addresses must
        really share its storage with another not-yet-collected vector"""
        w = env.world
        e = w.entries.get(out["writer"]) if out["writer"] is not None else None
        if e is None or not e.is_table:
            return []
        env.probe("c15_table_refusals")
        try:
            cols = list(e.obj.cols())
        except Exception:
            return []
        addr = self._addressed(e.obj, cols, rec.get("cols"))
        if not addr:
            return []
        shared = {}
        for j in range(len(cols)):
            tr = real_sharers(cols[j])
            if tr is None:
                env.probe("c15_ground_truth_unavailable")
                return []
            shared[j] = bool(tr)
        if any(shared[j] for j in addr):
            env.probe("c15_table_refused_with_real_partner")
            return []
        if any(len(cols[j]) == 0 for j in addr):
            env.probe("c15_empty_vector_refusals")
            return []
        others = sorted(j for j in shared if shared[j] and j not in addr)
        sig = {"op": "tset", "how": "untouched-column-shared" if others else "no-sharer",
               "vid": (rec.get("vid") or {}).get("p", "fresh"), "ncols_addressed": min(len(set(addr)), 3)}
        return [Violation("C15", "C15/spurious-refusal",
                          "item assignment on table %s addressing columns %s refused with AliasError although none of them shares "
                          "its storage with another live vector%s" % (
                              w.name_of(e), sorted(set(addr)),
                              ("; only the untouched column(s) %s are shared" % others) if others else ""), sig)]

    def _partners(self, tag, target):
        out = []
        for r in self.classes.get(tag, []):
            o = r()
            if o is not None and o is not target:
                out.append(o)
        return out

    def after(self, env, rec, out, ctx, pre):
        if out["st"] == "skip":
            return []
        w = env.world
        viols = []
        op = rec["op"]
        for eid, ref in (pre or {}).items():
            if eid not in w.entries and ref() is not None:
                self.dropped.append((ref, env.step))
        if len(self.dropped) > 64:
            self.dropped = [d for d in self.dropped if d[0]() is not None][-64:]
        if op == "collect":
            self.last_collect = env.step
        if op == "vec_of_input" and out["st"] == "ok" and out["res"] is not None:
            e = w.entries.get(out["res"])
            if e is not None and isinstance(w.inputs.get(rec["inp"]), tuple):
                tag = rec["inp"]
                self.classes.setdefault(tag, []).append(weakref.ref(e.obj))
                self.tag_of[e.obj] = tag
                if len(self._partners(tag, e.obj)) >= 1:
                    env.probe("c15_sharing_class_formed")
        if op == "vec_of_cols" and out["st"] == "ok" and out["res"] is not None:
            # the program took a vector's storage tuple (cols()) and built a second vector over it:
            # the two are built over one caller-supplied tuple
            src = w.handles.get(rec["h"])
            res = w.entries.get(out["res"])
            if src is not None and res is not None:
                tag = self.tag_of.get(src.obj) or ("cols:%d" % src.eid)
                if src.obj not in self.tag_of:
                    self.tag_of[src.obj] = tag
                    self.classes.setdefault(tag, []).append(weakref.ref(src.obj))
                self.classes.setdefault(tag, []).append(weakref.ref(res.obj))
                self.tag_of[res.obj] = tag
                env.probe("c15_sharing_class_formed")
        if op == "deepcopy" and out["st"] == "ok" and out["res"] is not None:
            # copy.deepcopy keeps a tuple of immutables as the very same object, so the deep
            # copy of a vector built over a caller tuple is itself built over that tuple
            src = w.handles.get(rec["h"])
            res = w.entries.get(out["res"])
            if src is not None and res is not None and not res.is_table:
                st = _storage(res.obj)
                if st is not _MISSING and st is _storage(src.obj):
                    tag = self.tag_of.get(src.obj)
                    if tag is None:
                        tag = "deep:%d" % src.eid
                        self.tag_of[src.obj] = tag
                        self.classes.setdefault(tag, []).append(weakref.ref(src.obj))
                    self.classes.setdefault(tag, []).append(weakref.ref(res.obj))
                    self.tag_of[res.obj] = tag
                    env.probe("c15_deepcopy_joins_class")
        if op == "tset" and out["st"] == "exc" and out["exc"] == "AliasError":
            viols.extend(self._table_refusal(env, rec, out))
            return viols
        if out["kind"] != "write" or op not in ("writeback", "set"):
            return viols
        e = w.entries.get(out["writer"]) if out["writer"] is not None else None
        if e is None:
            return viols
        target = e.obj
        tag = self.tag_of.get(e.obj)
        n = len(target)
        env.probe("c15_writes")
        if out["st"] == "exc" and out["exc"] == "AliasError":
            env.probe("c15_alias_errors")
            changed = [eid for eid, s in env.prev.items() if eid in env.cur and env.cur[eid] != s]
            if changed:
                viols.append(Violation("C15", "C15/refused-but-changed", "a refused write changed %s" % (
                    [w.name_of(w.entries[c]) for c in changed if c in w.entries]), {"op": op}))
                return viols
            model = self._partners(tag, target) if tag else []
            truth = real_sharers(target)
            live_paths = sorted({x.born.split(":")[0] for x in w.tables()})
            sig = {"op": op, "target_born": e.born.split(":")[0], "empty": n == 0,
                   "vid": (rec.get("vid") or {}).get("p", "fresh"), "tables_alive": bool(live_paths)}
            if truth is None:
                env.probe("c15_ground_truth_unavailable")
            held = {id(x.obj): x for x in w.live_entries()}
            overdue = self._overdue(w, truth if truth is not None else model, held)
            if model and (truth is None or truth) and overdue:
                # every sharer was let go by the program *before* the last collection and is reachable
                # through no object the program still holds: only the library itself keeps it alive
                sig["how"] = "partner-kept-alive-after-collect"
                viols.append(Violation("C15", "C15/spurious-refusal",
                                       "write to %s (born by %s) refused with AliasError; its only sharers were dropped by the program "
                                       "before the last gc.collect() and are held by nothing the program holds - the library keeps them alive" % (
                                           w.name_of(e), e.born), sig))
            elif model and (truth is None or truth):
                # another not-yet-collected vector built over the same caller tuple: a legitimate refusal
                env.probe("c15_refused_with_real_partner")
                if not any(id(s) in held for s in (truth if truth is not None else model)):
                    env.probe("c15_zombie_partner_at_write")
            elif n == 0 and truth:
                # all empty vectors share CPython's interned (): counted, not gated (DESIGN 4.7)
                env.probe("c15_empty_vector_refusals")
            elif truth:
                # storage really is shared, but not because the caller supplied one tuple twice: the
                # library itself made a copy / slice / operation result / column share storage
                born = sorted({held[id(s)].born.split(":")[0] if id(s) in held else "unheld" for s in truth})
                sig["how"] = "library-made-sharing"
                sig["sharer_born"] = born
                viols.append(Violation("C15", "C15/spurious-refusal",
                                       "write to %s (born by %s, %d elements) refused with AliasError: it shares storage with %s, but neither was "
                                       "built over a caller-supplied tuple - the library made them share" % (w.name_of(e), e.born, n, born), sig))
            else:
                sig["how"] = "no-sharer" if not model else "partner-no-longer-shares"
                viols.append(Violation("C15", "C15/spurious-refusal",
                                       "write to %s (born by %s, %d elements) refused with AliasError although no other live vector "
                                       "shares its storage; live tables born by %s; identity policy %s" % (
                                           w.name_of(e), e.born, n, live_paths, sig["vid"]), sig))
            return viols
        if out["st"] == "ok":
            # the writer is alone from now on
            if tag:
                partners = self._partners(tag, target)
                if partners:
                    env.probe("c15_sharer_written")
                self.classes[tag] = [r for r in self.classes.get(tag, []) if r() is not None and r() is not target]
                self.tag_of.pop(e.obj, None)
                # leak: no other member of the class may have observed the write
                for other in w.live_entries():
                    if other.eid != e.eid and self.tag_of.get(other.obj) == tag and other.obj is not target:
                        if env.prev.get(other.eid) != env.cur.get(other.eid):
                            viols.append(Violation("C15", "C15/leak",
                                                   "write through %s was observed by %s, built over the same caller tuple" % (
                                                       w.name_of(e), w.name_of(other)), {"op": op}))
            else:
                if any(self._partners(t, None) for t in self.classes):
                    env.probe("c15_unshared_write_while_classes_alive")
        return viols
