"""C02 - tables stay rectangular; row views agree with column views; structural
operations preserve cells (relative oracle, evaluated in snapshot space)."""
from simkit import values as V
from simkit.engine import Oracle, Violation
from simkit.world import serif


def _cells_ok(t):
    """returns None or (clause, text, extra) for one table, public reads only"""
    S = serif()
    cols = t.cols()
    ncols = len(cols)
    for c in cols:
        if isinstance(c, S.Table):
            # nested tables are outside the property (len() of such a table counts columns) - except that
            # even then all columns must have one common length
            lens = [len(x) for x in cols]
            if len(set(lens)) > 1:
                return ("C02/ragged", "columns (one of them a nested table) have lengths %s" % lens, {"how": "nested-length"})
            return None
        if not isinstance(c, S.Vector):
            return ("C02/ragged", "column is not a vector: %s" % type(c).__name__, {"how": "non-vector-column"})
    n = len(t)
    lens = [len(c) for c in cols]
    if any(l != n for l in lens):
        return ("C02/ragged", "len(table)=%d but column lengths are %s" % (n, lens), {"how": "lengths"})
    shape = tuple(t.shape)
    want = (n, ncols) if ncols else (0, 0)
    if ncols and n == 0:
        want = (0, ncols)
    if shape != want:
        # a table whose first row holds shaped objects reports deeper shapes; only flat cells are generated
        return ("C02/ragged", "shape %s but %d rows x %d columns" % (shape, n, ncols), {"how": "shape"})
    colvals = [[V.tv(x) for x in c] for c in cols]
    if n == 0:
        # there is no i-th row to compare; whether iterating a zero-row table may raise
        # (it does on this code base: empty columns have no dtype) is not fixed by the statement
        return None
    if n <= 5000:
        sampled = range(n)
    else:
        # long tables: every row is iterated and counted, the cell-by-cell comparison is made on the
        # ends, on the neighbourhood of every power of two and on an even spread (deterministic)
        pick = set(range(64)) | set(range(n - 64, n)) | set(range(0, n, max(1, n // 256)))
        p = 64
        while p < n:
            pick.update(i for i in (p - 1, p, p + 1) if 0 <= i < n)
            p *= 2
        sampled = sorted(pick)
    in_sample = set(sampled)
    it_rows = {}
    it_sliced = {}
    count = 0
    for row in t:
        if count in in_sample:
            it_rows[count] = [V.tv(x) for x in row]
            try:
                it_sliced[count] = [V.tv(x) for x in row[:]]     # a vector-level read of the same row
            except Exception as ex:
                it_sliced[count] = None
                ex = None
        count += 1
    if count != n:
        return ("C02/row-col-mismatch", "iteration yields %d rows, len is %d" % (count, n), {"how": "iter-count"})
    for i in sampled:
        want_row = [cv[i] for cv in colvals]
        got = [V.tv(x) for x in t[i]]
        if got != want_row:
            return ("C02/row-col-mismatch", "t[%d] is %s, columns say %s" % (i, got, want_row), {"how": "index"})
        if it_rows[i] != want_row:
            return ("C02/row-col-mismatch", "iterated row %d is %s, columns say %s" % (i, it_rows[i], want_row), {"how": "iter"})
        if it_sliced[i] is not None and it_sliced[i] != want_row:
            return ("C02/row-col-mismatch", "iterated row %d read through row[:] is %s, columns say %s" % (i, it_sliced[i], want_row), {"how": "iter-slice"})
        if n and i == n - 1:
            gotn = [V.tv(x) for x in t[-1]]
            if gotn != want_row:
                return ("C02/row-col-mismatch", "t[-1] is %s, columns say %s" % (gotn, want_row), {"how": "index-neg"})
    # an index the columns do not have is an index the table does not have
    for i in (n, -n - 1, -2 * n):
        if i == 0:
            continue
        try:
            want_i = [V.tv(c[i]) for c in cols]
        except IndexError:
            want_i = "IndexError"
        try:
            got_i = [V.tv(x) for x in t[i]]
        except IndexError:
            got_i = "IndexError"
        if got_i != want_i:
            return ("C02/row-col-mismatch", "t[%d] gives %s, the columns give %s at that index" % (i, got_i, want_i), {"how": "out-of-range"})
    # two iterations alive at once (nested loops, pairwise zip): the row an outer loop holds
    # must not move when an inner loop over the same table advances
    if 1 < n <= 6:
        for i, a in enumerate(t):
            for j, b in enumerate(t):
                ga, gb = [V.tv(x) for x in a], [V.tv(x) for x in b]
                if ga != [cv[i] for cv in colvals] or gb != [cv[j] for cv in colvals]:
                    return ("C02/row-col-mismatch", "nested iteration: outer row %d reads %s, inner row %d reads %s; columns say %s / %s" % (
                        i, ga, j, gb, [cv[i] for cv in colvals], [cv[j] for cv in colvals]), {"how": "nested-iter"})
        it1, it2 = iter(t), iter(t)
        next(it2)
        for i, (a, b) in enumerate(zip(it1, it2)):
            ga, gb = [V.tv(x) for x in a], [V.tv(x) for x in b]
            if ga != [cv[i] for cv in colvals] or gb != [cv[i + 1] for cv in colvals]:
                return ("C02/row-col-mismatch", "two iterators side by side: rows %d/%d read %s / %s" % (i, i + 1, ga, gb), {"how": "pairwise-iter"})
    return None


def _elems(snap):
    return snap[1] if snap and snap[0] == "V" else None


def _tcols(snap):
    return [c[1] for c in snap[2]] if snap and snap[0] == "T" and all(c[0] == "V" for c in snap[2]) else None


class C02(Oracle):
    prop = "C02"

    def after(self, env, rec, out, ctx, pre):
        if out["st"] == "skip":
            return []
        w = env.world
        viols = []
        for e in w.tables():
            if env.prev.get(e.eid) == env.cur.get(e.eid):
                continue
            env.probe("c02_tables_checked")
            try:
                bad = _cells_ok(e.obj)
            except Exception as ex:
                bad = ("C02/row-col-mismatch", "reading rows/columns raised %s" % type(ex).__name__, {"how": "raise:" + type(ex).__name__})
                ex = None
            if bad:
                clause, text, extra = bad
                sig = {"op": rec["op"], "st": out["st"], "born": e.born.split(":")[0], "new": e.eid not in env.prev}
                sig.update(extra)
                if rec.get("ragged"):
                    sig["ragged_input"] = True
                    env.probe("c02_ragged_input_stored")
                viols.append(Violation("C02", clause, "after %s (%s): table %s (born by %s): %s" % (
                    rec["op"], out["st"], w.name_of(e), e.born, text), sig))
        if rec.get("ragged"):
            env.probe("c02_ragged_inputs")
            if out["st"] == "exc":
                env.probe("c02_ragged_rejected")
        if viols or out["st"] != "ok" or out["res"] is None:
            return viols
        res = w.entries.get(out["res"])
        if res is None or not res.is_table:
            return viols
        rs = env.cur.get(res.eid)
        rcols = _tcols(rs)
        if rcols is None:
            return viols
        op = rec["op"]
        try:
            v = None
            if op == "rshift" and not rec.get("refl"):
                v = self._rshift(env, rec, rcols)
            elif op == "lshift" and not rec.get("refl"):
                v = self._lshift(env, rec, rcols)
            elif op == "getitem" and rec["key"]["k"] in ("slice", "boollist", "boolvec", "intvec"):
                v = self._uniform(env, rec, rcols)
            elif op == "T":
                v = self._tt(env, rec, res, rs)
        except Exception as ex:
            v = None
            ex = None
        if v:
            viols.append(Violation("C02", "C02/cells-not-preserved", v, {"op": op, "other": rec.get("other", {}).get("k")}))
        return viols

    # -- relative oracles --------------------------------------------------
    def _src(self, env, name):
        e = env.world.handles.get(name)
        if e is None:
            return None
        return env.prev.get(e.eid)

    def _other_cols(self, env, spec):
        """columns (tuples of tv) contributed by a >> / << operand spec, or None if unknown"""
        k = spec["k"]
        if k == "h":
            s = self._src(env, spec["h"])
            if s is None:
                return None
            if s[0] == "V":
                return [s[1]]
            return _tcols(s)
        if k in ("list", "tuple"):
            return [tuple(V.tv(x) for x in V.dec_list(spec["v"]))]
        if k == "dict":
            out = []
            for _, x in spec["items"]:
                c = self._other_cols(env, x)
                if c is None or len(c) != 1:
                    return None
                out.extend(c)
            return out
        return None

    def _rshift(self, env, rec, rcols):
        s = self._src(env, rec["h"])
        if s is None:
            return None
        left = [s[1]] if s[0] == "V" else _tcols(s)
        right = self._other_cols(env, rec["other"])
        if left is None or right is None:
            return None
        env.probe("c02_rshift_checked")
        if s[0] == "T" and len(left) == 0:
            return None   # appending to a zero-column table: not fixed by the statement
        want = left + right
        if [tuple(c) for c in rcols] != [tuple(c) for c in want]:
            return "t >> x: result columns %s, expected existing columns then x's: %s" % (rcols, want)
        return None

    def _lshift(self, env, rec, rcols):
        s = self._src(env, rec["h"])
        if s is None or s[0] != "T":
            return None
        left = _tcols(s)
        spec = rec["other"]
        if left is None:
            return None
        if spec["k"] == "list":
            vals = V.dec_list(spec["v"])
            if any(isinstance(x, (list, tuple)) for x in vals):
                return None      # a sequence inside the row list reads as a row of its own: not one flat row
            row = [V.tv(x) for x in vals]
            if len(row) != len(left):
                return None
            add = [(x,) for x in row]
        elif spec["k"] == "h":
            o = self._src(env, spec["h"])
            add = _tcols(o) if o is not None and o[0] == "T" else None
            if add is None or len(add) != len(left):
                return None
        else:
            return None
        env.probe("c02_lshift_checked")
        want = [tuple(l) + tuple(a) for l, a in zip(left, add)]
        if [tuple(c) for c in rcols] != want:
            return "t << rows: result columns %s, expected every column extended: %s" % (rcols, want)
        return None

    def _uniform(self, env, rec, rcols):
        from simkit.ops import mk_key, Ctx
        t = env.world.handles.get(rec["h"])
        if t is None or not t.is_table:
            return None
        key = mk_key(env.world, rec["key"], Ctx())
        env.probe("c02_uniform_checked")
        cols = t.obj.cols()
        if len(cols) != len(rcols):
            return "row selection changed the number of columns: %d -> %d" % (len(cols), len(rcols))
        for j, c in enumerate(cols):
            want = tuple(V.tv(x) for x in c[key])
            if tuple(rcols[j]) != want:
                return "row selection not uniform: column %d of the result is %s, the same key on the source column gives %s" % (j, rcols[j], want)
        return None

    def _tt(self, env, rec, res, rs):
        s = self._src(env, rec["h"])
        if s is None or s[0] != "T":
            return None
        src = _tcols(s)
        if not src or s[3] == 0:
            return None
        tt = res.obj.T
        env.probe("c02_tt_checked")
        S = serif()
        if not isinstance(tt, S.Table):
            return "t.T.T is not a table"
        back = [tuple(V.tv(x) for x in c) for c in tt.cols()]
        if back != [tuple(c) for c in src]:
            # value-level comparison: transposition may legitimately retype cells only if values stay equal
            return "t.T.T cells %s differ from t's %s" % (back, src)
        # and the transpose itself: cell (i, j) of t is cell (j, i) of t.T
        tcols = _tcols(rs)
        n, m = s[3], len(src)
        if tcols is not None:
            if len(tcols) != n or any(len(c) != m for c in tcols):
                return "t.T has shape %dx%d, expected %dx%d" % (len(tcols[0]) if tcols else 0, len(tcols), m, n)
            for i in range(n):
                for j in range(m):
                    if tcols[i][j] != src[j][i]:
                        return "t.T cell (%d,%d) is %s, t's cell (%d,%d) is %s" % (j, i, tcols[i][j], i, j, src[j][i])
        return None
