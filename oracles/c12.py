"""C12 - group-by aggregation: first-appearance order, correct values, callback contract (narrow).

Simulation part: hash-seed sweep (driver, `hashseeds`) + the callback seam: `apply`
functions are instrumented (exactly-once, ordered delivery, row-ordered arguments) and
made to fail at their k-th call. The comparison with group-by-hand is ordinary seeded
generation against the statement's own definition.

A case is a trace: one meta record then one record per table row.
"""
import hashlib
import json
import math
import random

from simkit import values as V
from simkit import engine
from simkit.faults import Ticker, FFunc, InjectedFault
from simkit.world import serif, snap_any

KEY_POOLS = {
    "int": [-1, 0, 1, 2, V.M61],
    "str": ["a", "b", "A", ""],
    "date": [V.D1, V.D2],
    "bool": [True, False],
    # a cell may hold a tuple (a (year, quarter) pair): a legal hashable key like any other
    "tuple": [V.TCell((2024, 1)), V.TCell((2024, 2)), V.TCell(()), V.TCell((1,)), V.TCell(("a", None))],
}
AGGS = ["sum", "mean", "min", "max", "count", "stdev"]
APPLY = {"len": len, "first": lambda vs: vs[0] if vs else None, "nn": lambda vs: sum(1 for v in vs if v is not None),
         # a callback that works in place on the list it is given (a typical median helper does)
         "rev": lambda vs: (vs.reverse(), len(vs))[1]}
OFFSETS = [1700000000, 1e9, 123456789.0, -1e8]
CANCEL = [1e16, -1e16, 1.0, 0.5, 1e16, -1e16, 0.1]     # sums that only a careful summation gets right


def gen_case(rng):
    nk = rng.choices([1, 2, 3], [6, 3, 1])[0]
    kkinds = [rng.choice(["int", "str", "date", "bool", "int", "str", "date", "bool", "tuple"]) for _ in range(nk)]
    pools = []
    for k in kkinds:
        p = list(KEY_POOLS[k])
        rng.shuffle(p)
        pools.append(p[:rng.randint(1, 3)])
    p_knone = rng.choice([0.0, 0.0, 0.2])
    nrows = rng.randint(0, 8)
    nv = rng.randint(1, 3)
    vkinds = [rng.choice(["int", "int", "float", "str"]) for _ in range(nv)]
    p_vnone = rng.choice([0.0, 0.15, 0.5, 1.0]) if rng.random() < 0.5 else 0.1
    names = ["k", "g", "a", "b", "v", "w", "A b", "k"]
    knames = [rng.choice(names) for _ in range(nk)]
    vnames = [rng.choice(names + [None]) for _ in range(nv)]
    # keys: stored in the table (by name / by column object) or external vectors
    kspec = []
    for c in range(nk):
        kspec.append(rng.choice(["name", "col", "ext"]))
    aggs = {}
    for a in rng.sample(AGGS, rng.randint(1, 4)):
        cols = [j for j in range(nv) if vkinds[j] != "str" or a in ("min", "max", "count")]
        if cols:
            aggs[a] = [rng.choice(cols) for _ in range(1 if rng.random() < 0.8 else 2)]
    apply = []
    if rng.random() < 0.45:
        for nm in rng.sample(["n", "f", "z"], rng.randint(1, 2)):
            apply.append({"name": nm, "col": rng.randrange(nv), "f": rng.choice(list(APPLY))})
        if len(apply) == 2 and rng.random() < 0.6:
            apply[1]["col"] = apply[0]["col"]       # two callbacks over one column
    meta = {"op": "case", "kkinds": kkinds, "knames": knames, "vnames": vnames, "vkinds": vkinds, "kspec": kspec,
            "aggs": aggs, "apply": apply, "single": rng.random() < 0.5, "fn": "aggregate",
            "over_form": rng.choice(["list", "list", "tuple", "gen"])}
    if apply and rng.random() < 0.4:
        meta["fault_at"] = rng.randint(0, 5)
    # some numeric columns sit on a large offset with a small spread (timestamps, ids): the
    # textbook two-pass variance is exact there, shortcuts are not
    offs = [rng.choice(OFFSETS) if (vkinds[j] != "str" and rng.random() < 0.2) else None for j in range(nv)]
    cancel = [vkinds[j] == "float" and rng.random() < 0.15 for j in range(nv)]
    special = [vkinds[j] == "float" and rng.random() < 0.12 for j in range(nv)]     # non-finite floats are non-None values too
    trace = [meta]
    for _ in range(nrows):
        keys = [None if rng.random() < p_knone else rng.choice(pools[c]) for c in range(nk)]
        vals = [None if rng.random() < p_vnone else V.pick_value(rng, vkinds[j], 0.0) for j in range(nv)]
        vals = [v if (v is None or offs[j] is None or isinstance(v, bool) or abs(v) > 1000) else offs[j] + v for j, v in enumerate(vals)]
        vals = [rng.choice(CANCEL) if (cancel[j] and v is not None) else v for j, v in enumerate(vals)]
        vals = [rng.choice([float("nan"), float("inf"), float("-inf")]) if (special[j] and v is not None and rng.random() < 0.3) else v
                for j, v in enumerate(vals)]
        trace.append({"op": "row", "k": V.enc_list(keys), "v": V.enc_list(vals)})
    return trace


def _model(fn, vals):
    clean = [v for v in vals if v is not None]
    if fn == "sum":
        return sum(clean)
    if fn == "count":
        return len(clean)
    if not clean:
        return None
    if fn == "mean":
        return sum(clean) / len(clean)
    if fn == "min":
        return min(clean)
    if fn == "max":
        return max(clean)
    if fn == "stdev":
        if len(clean) < 2:
            return None
        m = sum(clean) / len(clean)
        return math.sqrt(sum((x - m) ** 2 for x in clean) / (len(clean) - 1))
    raise ValueError(fn)


def _sums(clean):
    """the sums a faithful implementation may compute over floats: Python's builtin sum (compensated
    since 3.12), a plain left-to-right loop, math.fsum - they differ only by rounding, which is not
    something the statement ("the textbook function") decides"""
    out = [sum(clean)]
    if any(isinstance(x, float) for x in clean):
        t = 0
        for x in clean:
            t = t + x
        out.append(t)
        try:
            out.append(math.fsum(clean))
        except Exception:
            pass
    return out


def _alternatives(fn, vals):
    """every value the textbook function may take for this group (rounding variants only)"""
    clean = [v for v in vals if v is not None]
    base = _model(fn, vals)
    if fn == "sum":
        return _sums(clean)
    if fn == "mean" and clean:
        try:
            return [s / len(clean) for s in _sums(clean)]
        except Exception:
            return [base]
    return [base]


def _close_any(a, alts, fn):
    return any(_close(a, b, fn) for b in alts)


def _close(a, b, fn):
    if a is None or b is None:
        return a is None and b is None
    if isinstance(a, float) and isinstance(b, float) and (math.isnan(a) or math.isnan(b)):
        return math.isnan(a) and math.isnan(b)
    if isinstance(a, complex) or isinstance(b, complex):
        return V.loose_eq(a, b)
    if fn in ("mean", "stdev"):
        try:
            return math.isclose(a, b, rel_tol=1e-9, abs_tol=1e-12)
        except Exception:
            return a == b
    return a == b and (fn not in ("sum", "count") or isinstance(a, bool) == isinstance(b, bool) or True)


def evaluate(trace):
    if not trace or trace[0].get("op") != "case":
        return [], "no-case", None, {}
    S = serif()
    meta = trace[0]
    rows = [(V.dec_list(r["k"]), V.dec_list(r["v"])) for r in trace[1:] if r["op"] == "row"]
    nk, nv = len(meta["kkinds"]), len(meta["vkinds"])
    n = len(rows)
    kcols = [[r[0][c] for r in rows] for c in range(nk)]
    vcols = [[r[1][j] for r in rows] for j in range(nv)]
    cols = []
    over = []
    for c in range(nk):
        if meta["kspec"][c] != "ext":
            cols.append(S.Vector(kcols[c], name=meta["knames"][c]))
    for j in range(nv):
        cols.append(S.Vector(vcols[j], name=meta["vnames"][j]))
    probes = {}
    viols = []

    def add(clause, text, how):
        viols.append({"property": "C12", "clause": clause, "detail": text, "step": 0,
                      "sig": {"how": how, "nkeys": nk}})

    if not cols:
        return [], "no-cols", None, probes
    t = S.Table(cols)
    tcols = t.cols()
    ci = 0
    for c in range(nk):
        sp = meta["kspec"][c]
        if sp == "ext":
            over.append(S.Vector(kcols[c], name=meta["knames"][c]))
            probes["c12_key_not_in_table"] = 1
        else:
            first = [x.name for x in tcols].index(meta["knames"][c]) == ci if isinstance(meta["knames"][c], str) else False
            over.append(meta["knames"][c] if (sp == "name" and first) else tcols[ci])
            ci += 1
    nkin = ci
    vobjs = tcols[nkin:]
    kw = {}
    order = []
    for a in AGGS:
        if a in meta["aggs"]:
            kw[a + "_over"] = [vobjs[j] for j in meta["aggs"][a]]
            if meta.get("single") and len(kw[a + "_over"]) == 1:
                kw[a + "_over"] = kw[a + "_over"][0]
            order.extend((a, j) for j in meta["aggs"][a])
    ticker = Ticker(meta.get("fault_at"))
    ffs = []
    if meta["apply"]:
        ap = {}
        for a in meta["apply"]:
            f = FFunc(APPLY[a["f"]], ticker)
            ffs.append((a, f))
            ap[a["name"]] = (vobjs[a["col"]], f)
        kw["apply"] = ap
    ov = over[0] if (meta.get("single") and nk == 1) else over
    if meta.get("over_form") == "gen" and isinstance(ov, list):
        ov = (x for x in list(ov))          # a one-shot iterable of key specs
    elif meta.get("over_form") == "tuple" and isinstance(ov, list):
        ov = tuple(ov)
    snap0 = snap_any(t)
    # group by hand
    groups = {}
    for i in range(n):
        key = tuple(kcols[c][i] for c in range(nk))
        groups.setdefault(key, []).append(i)
    glist = list(groups.items())
    try:
        res = getattr(t, meta["fn"])(ov, **kw)
        exc = None
    except InjectedFault:
        exc, res = "InjectedFault", None
    except Exception as ex:
        exc, res = type(ex).__name__, None
        msg = str(ex)[:120]
        ex = None
    if snap_any(t) != snap0:
        add("C12/changed-on-callback-failure" if exc == "InjectedFault" else "C12/wrong-value",
            "%s changed the table it was called on" % meta["fn"], "input-modified")
    desc = None
    if exc == "InjectedFault":
        probes["c12_callback_failed"] = 1
        desc = "injected@%s" % ticker.n
    elif ticker.fired is not None:
        add("C12/callback-count", "the exception raised by the apply function at its call %s did not propagate" % meta.get("fault_at"), "swallowed")
        desc = "swallowed"
    elif exc is not None:
        allnone = any(all(v is None for v in vcols[j]) for j in range(nv)) or n == 0
        viols.append({"property": "C12", "clause": "C12/wrong-value", "step": 0,
                      "detail": "%s raised %s (%s)" % (meta["fn"], exc, msg),
                      "sig": {"how": "raised", "exc": exc, "empty_table": n == 0}})
        desc = "exc:" + exc
    else:
        if not isinstance(res, S.Table):
            add("C12/wrong-groups", "aggregate returned %s" % type(res).__name__, "not-a-table")
            return viols, "not-table", None, probes
        rc = [list(c) for c in res.cols()]
        desc = json.dumps([[[V.tv(x) for x in c] for c in rc], [V.tv(x) for x in res.column_names()]], default=repr)
        if n == 0:
            pass    # no groups: nothing to say about an empty result's columns
        elif len(rc) != nk + len(order) + len(meta["apply"]):
            add("C12/wrong-groups", "%d result columns for %d keys + %d aggregates + %d apply" % (len(rc), nk, len(order), len(meta["apply"])), "column-count")
        else:
            got_keys = [tuple(rc[c][g] for c in range(nk)) for g in range(len(rc[0]))] if rc else []
            want_keys = [k for k, _ in glist]
            if [tuple(V.tv(x) for x in k) for k in got_keys] != [tuple(V.tv(x) for x in k) for k in want_keys]:
                if sorted(map(repr, got_keys)) == sorted(map(repr, want_keys)):
                    add("C12/wrong-groups", "groups %s are not in first-appearance order %s" % (got_keys, want_keys), "order")
                else:
                    add("C12/wrong-groups", "groups %s, expected one row per distinct key: %s" % (got_keys, want_keys), "keys")
            else:
                for pos, (a, j) in enumerate(order):
                    col = rc[nk + pos]
                    for g, (k, idxs) in enumerate(glist):
                        want = _model(a, [vcols[j][i] for i in idxs])
                        if not _close_any(col[g], _alternatives(a, [vcols[j][i] for i in idxs]), a):
                            add("C12/wrong-value", "%s of column %d for group %r is %r, the textbook value is %r" % (a, j, k, col[g], want), "value:" + a)
                            break
                    if viols:
                        break
                for pos, (a, f) in enumerate(ffs):
                    wantc = [[vcols[a["col"]][i] for i in idxs] for _, idxs in glist]
                    if len(f.calls) != len(glist):
                        add("C12/callback-count", "apply %r called %d times for %d groups" % (a["name"], len(f.calls), len(glist)), "count")
                    elif [[V.tv(x) for x in c] for c in f.calls] != [[V.tv(x) for x in c] for c in wantc]:
                        add("C12/callback-args", "apply %r received %s, expected each group's values in row order, groups in order: %s" % (a["name"], f.calls, wantc), "args")
                    else:
                        col = rc[nk + len(order) + pos]
                        wantv = [APPLY[a["f"]](c) for c in wantc]
                        if [V.tv(x) for x in col] != [V.tv(x) for x in wantv]:
                            add("C12/wrong-value", "apply %r column is %s, the function returned %s" % (a["name"], col, wantv), "apply-result")
                if ffs:
                    probes["c12_apply_checked"] = 1
    # whole-column reductions agree with aggregating the column as a single group
    if not viols:
        for j in range(nv):
            if meta["vkinds"][j] == "str":
                continue
            vals = vcols[j]
            if not any(v is not None for v in vals):
                continue
            vec = S.Vector(vals)
            for a in ("sum", "mean", "min", "max", "stdev"):
                want = _model(a, vals)
                try:
                    # "agree with aggregating that column as a single group": ask the library itself
                    one = S.Table([S.Vector([0] * len(vals), name="g"), S.Vector(vals, name="v")])
                    want = list(one.aggregate(over="g", **{a + "_over": "v"}).cols()[1])[0]
                except Exception as ex:
                    ex = None
                try:
                    got = getattr(vec, a)()
                except Exception as ex:
                    add("C12/reduction-disagrees", "Vector.%s() raised %s on %r; aggregating the column as one group gives %r" % (a, type(ex).__name__, vals, want),
                        "reduction-raised:" + a)
                    ex = None
                    break
                if not _close(got, want, "mean" if a in ("mean", "stdev") else a):
                    add("C12/reduction-disagrees", "Vector.%s() is %r on %r, aggregate gives %r" % (a, got, vals, want), "reduction:" + a)
                    break
            probes["c12_reductions_checked"] = 1
            if viols:
                break
    interleaved = any(idxs != list(range(idxs[0], idxs[0] + len(idxs))) for _, idxs in glist)
    if interleaved:
        probes["c12_interleaved_groups"] = 1
    if any(any(x is None for x in k) for k, _ in glist):
        probes["c12_none_key"] = 1
    if any(all(vcols[j][i] is None for i in idxs) for _, idxs in glist for j in range(nv)):
        probes["c12_all_none_group"] = 1
    key = (nk, tuple(meta["kkinds"]), min(len(glist), 4), interleaved, tuple(sorted(meta["aggs"])), len(meta["apply"]),
           meta.get("fault_at") is not None, exc, bool(viols))
    return viols, desc or "none", key, probes


def _result(trace, s):
    viols, desc, key, probes = evaluate(trace)
    case_h = hashlib.sha256(json.dumps(trace, sort_keys=True).encode()).hexdigest()[:16]
    res_h = hashlib.sha256(desc.encode()).hexdigest()[:32]
    stats = {"ops": {"aggregate": 1}, "exc": {}, "faults": {}, "probes": dict(probes), "outcomes": {}}
    if desc.startswith("exc:"):
        stats["exc"][desc[4:]] = 1
    if desc.startswith("injected@"):
        stats["faults"]["callback:call"] = 1
    return {"trace": trace, "digest": case_h + ":" + res_h, "violations": viols, "stats": stats,
            "states": [hashlib.blake2b(repr(key).encode(), digest_size=8).hexdigest()] if key else [],
            "steps": 1, "prng": s, "profile": "c12"}


def run_index(check, seed, idx):
    engine.prepare_process()
    s = engine.seed_for(check, seed, idx)
    return _result(json.loads(json.dumps(gen_case(random.Random(s)))), s)


def replay(check, trace):
    engine.prepare_process()
    r = _result(trace, None)
    r["log"] = [json.dumps(x, sort_keys=True) for x in trace]
    return r


# ----------------------------------------------------------------------------
# history part: aggregates inside histories that write to key / value columns under identity reuse
# ----------------------------------------------------------------------------
from simkit.engine import Oracle, Violation


class C12H(Oracle):
    prop = "C12"

    def after(self, env, rec, out, ctx, pre):
        if rec["op"] != "agg" or rec.get("fn") != "aggregate" or out["st"] == "skip":
            return []
        from oracles.c09 import resolve_cols
        from simkit.ops import _APPLY
        w = env.world
        te = w.handles.get(rec["h"])
        if te is None:
            return []
        viols = []
        if te.eid in env.prev and env.prev[te.eid] != env.cur.get(te.eid):
            viols.append(Violation("C12", "C12/changed-on-callback-failure" if out["injected"] else "C12/wrong-value",
                                   "aggregate changed the table it was called on", {"how": "input-modified", "history": True}))
        if out["injected"]:
            env.probe("c12h_callback_failed")
            return viols
        if out["st"] != "ok" or out["res"] is None:
            return viols
        res = w.entries.get(out["res"])
        if res is None or not res.is_table:
            return viols
        sig = {"history": True}
        try:
            T = te.obj
            n = len(T)
            keys = resolve_cols(T, rec["over"])
            if keys is None or any(len(k) != n for k in keys) or n == 0:
                return viols
            groups = {}
            for i in range(n):
                groups.setdefault(tuple(k[i] for k in keys), []).append(i)
            glist = list(groups.items())
            rc = [list(c) for c in res.obj.cols()]
            order = []
            for a in AGGS:
                specs = rec.get(a + "_over")
                if specs:
                    vals = resolve_cols(T, specs)
                    if vals is None:
                        return viols
                    order.extend((a, v) for v in vals)
            applies = rec.get("apply", [])
            if len(rc) != len(keys) + len(order) + len(applies):
                viols.append(Violation("C12", "C12/wrong-groups", "aggregate inside a history: %d result columns for %d keys + %d aggregates + %d apply" % (
                    len(rc), len(keys), len(order), len(applies)), dict(sig, how="column-count")))
                return viols
            env.probe("c12h_aggregates_checked")
            nk = len(keys)
            got_keys = [tuple(V.tv(rc[c][g]) for c in range(nk)) for g in range(len(rc[0]))] if rc else []
            want_keys = [tuple(V.tv(x) for x in k) for k, _ in glist]
            if got_keys != want_keys:
                how = "order" if sorted(got_keys) == sorted(want_keys) else "keys"
                viols.append(Violation("C12", "C12/wrong-groups", "aggregate inside a history: groups %s, group-by-hand over the table's current contents gives %s" % (got_keys, want_keys), dict(sig, how=how)))
                return viols
            for pos, (a, vals) in enumerate(order):
                col = rc[nk + pos]
                for g, (k, idxs) in enumerate(glist):
                    try:
                        want = _model(a, [vals[i] for i in idxs])
                        alts = _alternatives(a, [vals[i] for i in idxs])
                    except Exception as ex:
                        ex = None
                        return viols
                    if not _close_any(col[g], alts, a):
                        viols.append(Violation("C12", "C12/wrong-value", "aggregate inside a history: %s for group %r is %r, the textbook value over the current contents is %r" % (a, k, col[g], want), dict(sig, how="value:" + a)))
                        return viols
            for pos, (a, (nm, f)) in enumerate(zip(applies, ctx.ffuncs)):
                vals = resolve_cols(T, [a["col"]])
                if vals is None:
                    return viols
                wantc = [[vals[0][i] for i in idxs] for _, idxs in glist]
                if len(f.calls) != len(glist):
                    viols.append(Violation("C12", "C12/callback-count", "apply %r called %d times for %d groups" % (nm, len(f.calls), len(glist)), dict(sig, how="count")))
                    return viols
                if [[V.tv(x) for x in c] for c in f.calls] != [[V.tv(x) for x in c] for c in wantc]:
                    viols.append(Violation("C12", "C12/callback-args", "apply %r received %s, expected each group's values in row order: %s" % (nm, f.calls, wantc), dict(sig, how="args")))
                    return viols
                env.probe("c12h_apply_checked")
        except Exception as ex:
            ex = None
        return viols
