"""C09 - inner join: exactly the key-equal pairs, left-major, under every hash seed (narrow).

The simulation part is the environment sweep: the same seeded workload is executed in
fresh interpreters under several PYTHONHASHSEED values (driver, `hashseeds`) and the
per-case result digests must agree. To say *which* order is the invariant one, every
interpreter also compares with the nested-loop definition - ordinary seeded generation
against a reference, stated as such.

A case is a trace: one meta record followed by one record per left / right row, so the
generic minimiser can drop rows.
"""
import hashlib
import json
import random

from simkit import values as V
from simkit import engine
from simkit.world import serif, snap_any

KEY_POOLS = {
    "int": [-2, -1, 0, 1, V.M61, 7],
    "str": ["a", "b", "A", "", "zz", "a|b", "b|", "|", "a|"],
    "bool": [True, False],
    "date": [V.D1, V.D2, V.D3],
}
PAY_KINDS = ["int", "float", "str", "date", "bool"]


def gen_case(rng):
    nk = rng.choices([1, 2, 3], [6, 3, 1])[0]
    kkinds = [rng.choice(list(KEY_POOLS)) for _ in range(nk)]
    pools = []
    for k in kkinds:
        p = list(KEY_POOLS[k])
        rng.shuffle(p)
        pools.append(p[:rng.randint(1, 3)])
    if nk >= 2 and rng.random() < 0.35:
        # composite keys whose naive concatenation is ambiguous: ('a|b','') vs ('a','b|'), (1,23) vs (12,3)
        if rng.random() < 0.6:
            kkinds = ["str"] * nk
            sep = rng.choice(["|", "|", "\x1f", "\x00", ",", " ", "_", "-", "\t", "/"])
            pools = [["a" + sep + "b", "a", "a" + sep], ["", "b" + sep, "b", sep + "b"]] + [["x", ""]] * (nk - 2)
        else:
            kkinds = ["int"] * nk
            pools = [[1, 12, 0], [23, 3, 123]] + [[7]] * (nk - 2)
    p_none = rng.choice([0.0, 0.0, 0.15, 0.3])
    nl, nr = rng.randint(0, 7), rng.randint(0, 7)
    # "unique" mode: keys without repetition on both sides, a long left and a short right side,
    # joined under a cardinality expectation that holds (fast paths live behind `expect`)
    unique = rng.random() < 0.25
    if unique:
        big = {"int": list(range(-3, 12)), "str": ["k%d" % i for i in range(10)] + ["K1", "zz"], "bool": [True, False],
               "date": [V.D1, V.D2, V.D3] + [V.D1.replace(day=d) for d in (5, 9, 17, 23, 28)]}
        pools = [list(big[k]) for k in kkinds]
        p_none = 0.0
        nl, nr = rng.randint(4, 9), rng.randint(1, 2)
    wide = rng.random() < 0.08          # now and then more than 8 columns on a side
    lpay = [rng.choice(PAY_KINDS) for _ in range(rng.randint(8, 11) if wide else rng.randint(0, 2))]
    rpay = [rng.choice(PAY_KINDS) for _ in range(rng.randint(8, 11) if wide and rng.random() < 0.5 else rng.randint(0, 2))]
    names = ["k", "j", "i", "a", "b", "x", "y", "k", "K", "A b", "a_b", "a b", "J"]
    lnames = [rng.choice(names) for _ in range(nk + len(lpay))]
    rnames = [rng.choice(names) for _ in range(nk + len(rpay))]
    # key columns are addressed by name only when the name is unambiguous (first occurrence)
    def keyspec(nms, j):
        by_name = isinstance(nms[j], str) and nms.index(nms[j]) == j and rng.random() < 0.6
        return "name" if by_name else rng.choice(["col", "vec"])
    lpos = rng.sample(range(nk + len(lpay)), nk)
    rpos = rng.sample(range(nk + len(rpay)), nk)
    meta = {"op": "case", "kkinds": kkinds, "lnames": lnames, "rnames": rnames, "lpos": lpos, "rpos": rpos,
            "lspec": [keyspec(lnames, j) for j in lpos], "rspec": [keyspec(rnames, j) for j in rpos],
            "single": nk == 1 and rng.random() < 0.5,
            "expect": rng.choice(["many_to_many", "many_to_many", "one_to_one", "many_to_one", "one_to_many"]) if unique
            else rng.choices(["many_to_many", "many_to_one", "one_to_many", "one_to_one"], [7, 1, 1, 1])[0]}
    used = [set(), set()]

    def row(pos, pay, width, side=0):
        vals = [None] * width
        keys = [None if rng.random() < p_none else rng.choice(pools[c]) for c in range(nk)]
        if unique:
            for _ in range(20):
                if tuple(map(repr, keys)) not in used[side]:
                    break
                keys = [rng.choice(pools[c]) for c in range(nk)]
            used[side].add(tuple(map(repr, keys)))
        for c, j in enumerate(pos):
            vals[j] = keys[c]
        rest = [j for j in range(width) if j not in pos]
        for j, kd in zip(rest, pay):
            vals[j] = None if rng.random() < 0.1 else V.pick_value(rng, kd, 0.0)
        return V.enc_list(vals)

    if not wide and all(k in ("int", "str") for k in kkinds) and rng.random() < 0.008:
        # one side longer than 2**16 rows: filler rows (keys that match nothing) in front of the real ones
        meta["pad"] = {"side": rng.choice(["r", "r", "l"]), "n": rng.choice([65536, 65537, 70001])}
    trace = [meta]
    for _ in range(nl):
        trace.append({"op": "lrow", "v": row(lpos, lpay, nk + len(lpay))})
    for _ in range(nr):
        trace.append({"op": "rrow", "v": row(rpos, rpay, nk + len(rpay), 1)})
    return trace


def build(trace):
    S = serif()
    meta = trace[0]
    lrows = [V.dec_list(r["v"]) for r in trace[1:] if r["op"] == "lrow"]
    rrows = [V.dec_list(r["v"]) for r in trace[1:] if r["op"] == "rrow"]

    pad = meta.get("pad")
    if pad:
        pos = meta["lpos"] if pad["side"] == "l" else meta["rpos"]
        width = len(meta["lnames"] if pad["side"] == "l" else meta["rnames"])
        filler = []
        for i in range(pad["n"]):
            r = [None] * width
            for c, j in enumerate(pos):
                r[j] = (100000 + i) if meta["kkinds"][c] == "int" else "p%d" % i
            filler.append(r)
        if pad["side"] == "l":
            lrows = filler + lrows
        else:
            rrows = filler + rrows

    def table(names, rows):
        cols = [S.Vector([r[j] for r in rows], name=nm) for j, nm in enumerate(names)]
        return S.Table(cols)

    L = table(meta["lnames"], lrows)
    R = table(meta["rnames"], rrows)

    def specs(T, names, pos, how):
        out = []
        for j, h in zip(pos, how):
            if h == "name":
                out.append(names[j])
            elif h == "col":
                out.append(T.cols()[j])
            else:
                c = T.cols()[j]
                out.append(S.Vector(list(c), name=c.name) if len(c) else c)
        return out

    lon = specs(L, meta["lnames"], meta["lpos"], meta["lspec"])
    ron = specs(R, meta["rnames"], meta["rpos"], meta["rspec"])
    if meta.get("single") and len(lon) == 1:
        lon, ron = lon[0], ron[0]
    return L, R, lon, ron, lrows, rrows


def evaluate(trace):
    """returns (violations, result description for the digest, state key)"""
    if not trace or trace[0].get("op") != "case":
        return [], "no-case", None
    meta = trace[0]
    L, R, lon, ron, lrows, rrows = build(trace)
    sl, sr = snap_any(L), snap_any(R)
    viols = []

    def add(clause, text, how):
        viols.append({"property": "C09", "clause": clause, "detail": text, "sig": {"how": how, "nkeys": len(meta["lpos"])}, "step": 0})

    want = []
    for a in lrows:
        ka = tuple(a[j] for j in meta["lpos"])
        for b in rrows:
            kb = tuple(b[j] for j in meta["rpos"])
            if ka == kb:
                want.append(tuple(V.tv(x) for x in a) + tuple(V.tv(x) for x in b))
    expect = meta.get("expect", "many_to_many")
    lkeys = [tuple(a[j] for j in meta["lpos"]) for a in lrows]
    rkeys = [tuple(b[j] for j in meta["rpos"]) for b in rrows]
    l_unique = len(set(map(repr, lkeys))) == len(lkeys) and len({k for k in lkeys}) == len(lkeys)
    r_unique = len({k for k in rkeys}) == len(rkeys)
    holds = {"many_to_many": True, "many_to_one": r_unique, "one_to_many": l_unique, "one_to_one": l_unique and r_unique}[expect]
    try:
        res = L.inner_join(R, lon, ron, expect=expect)
        exc = None
    except Exception as ex:
        exc = type(ex).__name__
        msg = str(ex)[:150]
        ex = None
        res = None
    if snap_any(L) != sl or snap_any(R) != sr:
        add("C09/input-modified", "inner_join changed one of its inputs", "input")
    if exc == "SerifValueError" and not holds:
        # the cardinality expectation does not hold: whether and how that is reported is C11's
        # subject (not applicable here), not C09's
        return viols, "expect-violated", ("expect-violated", expect)
    if exc is not None:
        # a key column holding nothing but None has no kind of its own (it infers object?);
        # the library's dtype-agreement check then refuses the pairing with a typed column.
        # Whether such a column is "a str/bool/... key column" is not fixed by the statement.
        degenerate = False
        for c in range(len(meta["lpos"])):
            lk = [r[meta["lpos"][c]] for r in lrows]
            rk = [r[meta["rpos"][c]] for r in rrows]
            if (lk and all(x is None for x in lk)) != (rk and all(x is None for x in rk)) or not lk or not rk:
                if all(x is None for x in lk) or all(x is None for x in rk):
                    degenerate = True
        if degenerate and exc == "SerifTypeError":
            return viols, "exc-degenerate:" + exc, ("degenerate",)
        first_none = any(r and r[0][j] is None for r, pos in ((lrows, meta["lpos"]), (rrows, meta["rpos"])) for j in pos)
        viols.append({"property": "C09", "clause": "C09/wrong-rows", "step": 0,
                      "detail": "inner_join raised %s (%s) on keys of kinds %s; the definition gives %d rows" % (exc, msg, meta["kkinds"], len(want)),
                      "sig": {"how": "raised", "exc": exc, "key_starts_with_none": first_none,
                              "empty_side": not lrows or not rrows}})
        return viols, "exc:" + exc, ("raised", exc, len(meta["lpos"]))
    S = serif()
    cols = res.cols() if isinstance(res, S.Table) else None
    if cols is None:
        add("C09/wrong-rows", "inner_join returned %s" % type(res).__name__, "not-a-table")
        return viols, "not-table", ("nottable",)
    got = [tuple(V.tv(x) for x in row) for row in zip(*[list(c) for c in cols])] if cols else []
    names = [V.tv(n) for n in res.column_names()]
    desc = json.dumps([got, names, [repr(c.schema()) for c in cols]], default=repr)
    if not want and not cols:
        pass     # an empty result may come back without columns; the statement speaks about output rows
    else:
        if sorted(got) != sorted(want):
            add("C09/wrong-rows", "result rows %s, the definition gives %s" % (got, want), "multiset")
        elif got != want:
            add("C09/wrong-rows", "right rows, wrong order: %s, left-major order is %s" % (got, want), "order")
        wn = [V.tv(n) for n in meta["lnames"] + meta["rnames"]]
        if names != wn:
            add("C09/wrong-names", "result names %s, sources %s" % (names, wn), "names")
    dup = len(want) - len(set(want))
    key = (len(meta["lpos"]), tuple(meta["kkinds"]), min(len(want), 4), dup > 0, not lrows, not rrows,
           any(k is None for a in lrows for k in (a[j] for j in meta["lpos"])), bool(viols), expect, holds)
    return viols, desc, key


def _result(trace, s):
    viols, desc, key = evaluate(trace)
    case_h = hashlib.sha256(json.dumps(trace, sort_keys=True).encode()).hexdigest()[:16]
    res_h = hashlib.sha256(desc.encode()).hexdigest()[:32]
    stats = {"ops": {"inner_join": 1}, "exc": {}, "faults": {}, "probes": {}, "outcomes": {}}
    if desc.startswith("exc:"):
        stats["exc"][desc[4:]] = 1
    if key is not None and len(key) >= 7:
        if key[3]:
            stats["probes"]["c09_many_to_many_bucket"] = 1
        if key[6]:
            stats["probes"]["c09_none_key"] = 1
        if key[0] > 1:
            stats["probes"]["c09_composite_key"] = 1
    return {"trace": trace, "digest": case_h + ":" + res_h, "violations": viols, "stats": stats,
            "states": [hashlib.blake2b(repr(key).encode(), digest_size=8).hexdigest()] if key else [],
            "steps": 1, "prng": s, "profile": "c09"}


def run_index(check, seed, idx):
    engine.prepare_process()
    s = engine.seed_for(check, seed, idx)
    rng = random.Random(s)
    return _result(json.loads(json.dumps(gen_case(rng))), s)


def replay(check, trace):
    engine.prepare_process()
    r = _result(trace, None)
    r["log"] = [json.dumps(x, sort_keys=True) for x in trace]
    return r


# ----------------------------------------------------------------------------
# history part: joins inside histories that write to key columns under identity reuse
# ----------------------------------------------------------------------------
from simkit.engine import Oracle, Violation


def resolve_cols(table, specs):
    """the python value lists a list of column specs refers to (name -> first stored match)"""
    out = []
    cols = table.cols()
    names = list(table.column_names())
    for s in specs:
        if s["k"] == "str":
            if s["v"] not in names:
                return None
            out.append(list(cols[names.index(s["v"])]))
        elif s["k"] == "col":
            if s["j"] >= len(cols):
                return None
            out.append(list(cols[s["j"]]))
        elif s["k"] == "vec":
            out.append(V.dec_list(s["v"]))
        else:
            return None
    return out


class C09H(Oracle):
    prop = "C09"

    def after(self, env, rec, out, ctx, pre):
        if rec["op"] != "join" or rec.get("kind") != "inner_join" or out["st"] == "skip":
            return []
        w = env.world
        le, re_ = w.handles.get(rec["h"]), w.handles.get(rec["other"])
        if le is None or re_ is None:
            return []
        viols = []
        for e in (le, re_):
            if e.eid in env.prev and env.prev[e.eid] != env.cur.get(e.eid):
                viols.append(Violation("C09", "C09/input-modified", "inner_join changed its operand %s" % w.name_of(e), {"how": "input", "history": True}))
        if out["st"] != "ok" or out["res"] is None:
            return viols
        res = w.entries.get(out["res"])
        if res is None or not res.is_table:
            return viols
        try:
            L, R = le.obj, re_.obj
            lk, rk = resolve_cols(L, rec["lon"]), resolve_cols(R, rec["ron"])
            if lk is None or rk is None:
                return viols
            lrows = list(zip(*[list(c) for c in L.cols()])) if L.cols() else []
            rrows = list(zip(*[list(c) for c in R.cols()])) if R.cols() else []
            if any(len(k) != len(lrows) for k in lk) or any(len(k) != len(rrows) for k in rk):
                return viols
            want = []
            for i, a in enumerate(lrows):
                ka = tuple(k[i] for k in lk)
                for j, b in enumerate(rrows):
                    if ka == tuple(k[j] for k in rk):
                        want.append(tuple(V.tv(x) for x in a) + tuple(V.tv(x) for x in b))
            cols = res.obj.cols()
            got = [tuple(V.tv(x) for x in row) for row in zip(*[list(c) for c in cols])] if cols else []
        except Exception as ex:
            ex = None
            return viols
        env.probe("c09h_joins_checked")
        if any(e.eid in env.prev and "set" in "".join(sorted(e.tags)) for e in (le, re_)):
            pass
        sig = {"history": True, "nkeys": len(rec["lon"])}
        if not want and not cols:
            return viols
        if sorted(got) != sorted(want):
            sig["how"] = "multiset"
            viols.append(Violation("C09", "C09/wrong-rows", "inner_join inside a history: result rows %s, the definition over the operands' current contents gives %s" % (got, want), sig))
        elif got != want:
            sig["how"] = "order"
            viols.append(Violation("C09", "C09/wrong-rows", "inner_join inside a history: rows in order %s, left-major order is %s" % (got, want), sig))
        else:
            names = [V.tv(n) for n in res.obj.column_names()]
            wn = [V.tv(n) for n in list(L.column_names()) + list(R.column_names())]
            if names != wn:
                sig["how"] = "names"
                viols.append(Violation("C09", "C09/wrong-names", "result names %s, sources %s" % (names, wn), sig))
        return viols
