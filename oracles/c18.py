"""C18 - names propagate by fixed rules (per-operation post-conditions, exactly the
statement's list; evaluated in snapshot space on every derived object)."""
import ast
import re

from simkit import values as V
from simkit.engine import Oracle, Violation

NONE = ("NoneType", "None")


def docsan(name):
    """documented sanitisation: lower-case; runs of other characters -> one underscore;
    outer underscores stripped; leading digit prefixed with c; empty -> None"""
    if not isinstance(name, str):
        name = str(name)
    s = re.sub(r"[^a-z0-9_]+", "_", name.lower()).strip("_")
    if s == "":
        return None
    if s[0].isdigit():
        s = "c" + s
    return s


def _py(n):
    """the python value behind a snapshotted name, for the simple types names are drawn from"""
    if isinstance(n, tuple) and len(n) == 2 and n[0] in ("str", "int", "float", "bool", "NoneType"):
        try:
            return ast.literal_eval(n[1])
        except Exception:
            return n
    return n


def _name_eq(a, b):
    """equality of two snapshotted names the way the library compares names: =="""
    try:
        return bool(_py(a) == _py(b))
    except Exception:
        return a == b


def _vname(s):
    return s[2] if s and s[0] == "V" else None


def _tnames(s):
    return list(s[1]) if s and s[0] == "T" else None


class C18(Oracle):
    prop = "C18"

    def after(self, env, rec, out, ctx, pre):
        if out["st"] != "ok":
            return []
        w = env.world
        op = rec["op"]
        res = w.entries.get(out["res"]) if out["res"] is not None else None
        rs = env.cur.get(res.eid) if res is not None else None

        def src(name):
            e = w.handles.get(name)
            return env.prev.get(e.eid) if e is not None else None

        v = None
        rule = None
        try:
            if op == "binop" and rs is not None:
                a = src(rec["h"])
                other = rec["other"]
                b = src(other["h"]) if other["k"] == "h" else None
                if a and a[0] == "V" and b and b[0] == "V" and rs[0] == "V":
                    rule = "vector-op-vector"
                    env.probe("c18_vec_vec")
                    if _vname(rs) != NONE:
                        v = "vector %s vector gave a result named %s (operands %s, %s)" % (rec["fn"], _vname(rs), _vname(a), _vname(b))
                elif a and a[0] == "T" and rs[0] == "T" and rec["fn"] in ("add", "sub", "mul", "truediv", "floordiv", "mod", "pow") and not rec.get("refl"):
                    if other["k"] == "s":
                        rule = "table-op-scalar"
                        env.probe("c18_tab_scalar")
                        if _tnames(rs) != _tnames(a):
                            v = "table %s scalar: column names %s -> %s" % (rec["fn"], _tnames(a), _tnames(rs))
                    elif b and b[0] == "T" and len(b[1]) == len(a[1]):
                        rule = "table-op-table"
                        env.probe("c18_tab_tab")
                        want = [l if (r == NONE or _name_eq(r, l)) else NONE for l, r in zip(a[1], b[1])]
                        if _tnames(rs) != want:
                            v = "table %s table: left names %s, right names %s, result %s, expected %s" % (rec["fn"], _tnames(a), _tnames(b), _tnames(rs), want)
            elif op == "copy" and rs is not None:
                a = src(rec["h"])
                rule = "copy"
                if a and a[0] == "V" and rs[0] == "V" and _vname(rs) != _vname(a):
                    v = "copy: name %s -> %s" % (_vname(a), _vname(rs))
                elif a and a[0] == "T" and rs[0] == "T" and _tnames(rs) != _tnames(a):
                    v = "copy of a table: column names %s -> %s" % (_tnames(a), _tnames(rs))
            elif op == "getitem" and rs is not None and rec["key"]["k"] in ("slice", "boollist", "boolvec"):
                a = src(rec["h"])
                rule = "slice-or-mask"
                env.probe("c18_slice_mask")
                if a and a[0] == "V" and rs[0] == "V" and _vname(rs) != _vname(a):
                    v = "%s of a vector: name %s -> %s" % (rec["key"]["k"], _vname(a), _vname(rs))
                elif a and a[0] == "T" and rs[0] == "T" and _tnames(rs) != _tnames(a):
                    v = "%s of a table: column names %s -> %s" % (rec["key"]["k"], _tnames(a), _tnames(rs))
            elif op == "sort" and rs is not None:
                a = src(rec["h"])
                rule = "sort"
                env.probe("c18_sort")
                if a and a[0] == "V" and rs[0] == "V" and _vname(rs) != _vname(a):
                    v = "sort_by of a vector: name %s -> %s" % (_vname(a), _vname(rs))
                elif a and a[0] == "T" and rs[0] == "T" and _tnames(rs) != _tnames(a):
                    v = "sort_by of a table: column names %s -> %s" % (_tnames(a), _tnames(rs))
            elif op in ("set", "writeback"):
                e = w.entries.get(out["writer"])
                rule = "write"
                env.probe("c18_write")
                if e is not None:
                    a, b = env.prev.get(e.eid), env.cur.get(e.eid)
                    if a and b and a[0] == "V" and b[0] == "V" and a[2] != b[2]:
                        v = "in-place write changed the vector's name %s -> %s" % (a[2], b[2])
            elif op == "tset":
                e = w.entries.get(out["writer"])
                rule = "write"
                if e is not None:
                    a, b = env.prev.get(e.eid), env.cur.get(e.eid)
                    if a and b and a[0] == "T" and b[0] == "T" and a[1] != b[1]:
                        v = "table item assignment changed column names %s -> %s" % (list(a[1]), list(b[1]))
            elif op == "tab_vecs" and rs is not None and rs[0] == "T":
                rule = "table-from-vectors"
                env.probe("c18_tab_vecs")
                srcs = [src(h) for h in rec["hs"]]
                if all(s and s[0] == "V" for s in srcs):
                    want = [s[2] for s in srcs]
                    if _tnames(rs) != want:
                        v = "table built from vectors named %s has column names %s" % (want, _tnames(rs))
            elif op == "rshift" and rs is not None and rs[0] == "T" and not rec.get("refl"):
                a = src(rec["h"])
                other = rec["other"]
                rule = "stack"
                left = [a[2]] if a and a[0] == "V" else (_tnames(a) if a else None)
                if left is not None and not (a[0] == "T" and len(left) == 0):
                    env.probe("c18_stack")
                    if other["k"] == "h":
                        b = src(other["h"])
                        right = [b[2]] if b and b[0] == "V" else (_tnames(b) if b else None)
                        if right is not None and _tnames(rs) != left + right:
                            v = "stacking: source names %s + %s, result %s" % (left, right, _tnames(rs))
                    else:
                        if _tnames(rs)[:len(left)] != left:
                            v = "stacking: existing column names %s became %s" % (left, _tnames(rs)[:len(left)])
            elif op == "join" and rs is not None and rs[0] == "T":
                a, b = src(rec["h"]), src(rec["other"])
                rule = "join"
                if a and b and a[0] == "T" and b[0] == "T" and len(rs[1]) > 0:
                    env.probe("c18_join")
                    want = _tnames(a) + _tnames(b)
                    if _tnames(rs) != want:
                        v = "%s: source names %s, result %s" % (rec["kind"], want, _tnames(rs))
            elif op == "agg" and rs is not None and rs[0] == "T":
                rule = "aggregate-names"
                v = self._agg(env, rec, rs, src(rec["h"]))
        except Exception as ex:
            v = None
            ex = None
        if v:
            return [Violation("C18", "C18/" + rule, v, {"op": op, "rule": rule, "fn": rec.get("fn")})]
        return []

    def _colname(self, tsnap, spec):
        """stored name (python value) of the column a colspec refers to"""
        if spec["k"] == "str":
            return spec["v"]
        if spec["k"] == "vec":
            return V.dec(spec.get("name"))
        if spec["k"] == "col" and tsnap and tsnap[0] == "T" and spec["j"] < len(tsnap[1]):
            n = _py(tsnap[1][spec["j"]])
            return None if isinstance(n, tuple) else n
        return None

    def _agg(self, env, rec, rs, a):
        got = []
        nkeys = len(rec["over"])
        for pos, n in enumerate(rs[1]):
            if n[0] != "str":
                if pos < nkeys:
                    got.append(n)        # a key column keeps its (possibly non-string) name
                    continue
                return "%s produced a non-string output name %s" % (rec["fn"], n)
            got.append(ast.literal_eval(n[1]))  # repr of a str -> the str
        env.probe("c18_agg")
        if len(set(map(repr, got))) != len(got):
            return "%s output names are not pairwise distinct: %s" % (rec["fn"], got)
        over = rec["over"]
        k = len(over)
        for i, spec in enumerate(over):
            nm = self._colname(a, spec)
            if isinstance(nm, str) and i < len(got) and isinstance(got[i], str):
                if not re.match("^" + re.escape(nm) + r"_?\d*$", got[i]):
                    return "%s: key column named %r came out as %r" % (rec["fn"], nm, got[i])
        rest = got[k:]
        wants = []
        for param, suf in (("sum_over", "sum"), ("mean_over", "mean"), ("min_over", "min"), ("max_over", "max"),
                           ("count_over", "count"), ("stdev_over", "stdev")):
            for spec in rec.get(param, []):
                nm = self._colname(a, spec)
                base = docsan(nm) if nm is not None else "col"
                if base is None:
                    base = "col"
                wants.append("^" + re.escape(base) + "_?_" + suf + r"_?\d*$")
        n_apply = len(rec.get("apply", []))
        body = rest[:len(rest) - n_apply] if n_apply else rest
        if len(body) != len(wants):
            return "%s: %d aggregate outputs for %d requested" % (rec["fn"], len(body), len(wants))
        unused = list(body)
        for pat in wants:
            hit = [x for x in unused if re.match(pat, x)]
            if not hit:
                return "%s: no output named like %s among %s" % (rec["fn"], pat, body)
            unused.remove(hit[0])
        return None
