"""C17 - every column reachable by exactly one advertised, valid accessor.

Tables of int columns over a hostile name pool; renames through the table and through
live column views, replacements, additions; and accessor probes issued in
scheduler-chosen order. Probes are composite operations executed on the live table
(dir() and getattr() refresh or tame the cached accessor map, so their order relative
to renames is the schedule dimension); item assignment is tried on a deepcopy taken at
that instant (same cache state) so the live history is not disturbed by the write.
"""
import copy
import re

from simkit import values as V
from simkit.engine import Oracle, Violation
from simkit.gen import Gen, Info, simple_accessor
from simkit.ops import op, _bind_result
from simkit.world import serif
from oracles.c18 import docsan

POOL = ["a", "A", "a b", "a-b", "a_", "_a", "a__1", "a__2_", "x__10", "1x", "", " ", None, "sum", "T", "name",
        "shape", "class", "None", "col0_", "col1", "é", "ß", "a\nb", "b", "c", "B", "a.b", "__", "x y z",
        "cols", "column_names", "copy", "a__b__1", "a _ 1", "a__2__2", "a__b", "col", "col_", "colx_", "x__1__2", "0", "1",
        "Straße", "STRASSE", "strasse", "ﬁle", "FILE", "İ", "i",
        "a__01", "run__007", "a__00", "how satisfied are you with the onboarding process overall in 2024"]

_PUBLIC = None


def public_names():
    global _PUBLIC
    if _PUBLIC is None:
        S = serif()
        _PUBLIC = {n for n in dir(S.Vector) if not n.startswith("_")} | {n for n in dir(S.Table) if not n.startswith("_")}
    return _PUBLIC


def advertised(t):
    """the names the table adds to completion"""
    return sorted(set(dir(t)) - set(object.__dir__(t)))


def rule_regex(i, stored):
    if stored is None:
        return re.compile(r"^col%d_$" % i)
    base = docsan(stored)
    if base is None:
        return re.compile(r"^col%d_$" % i)
    # the documented base, optionally followed by a disambiguating suffix that starts with an
    # underscore (the suffix scheme itself is not part of the statement and is not modelled)
    return re.compile("^" + re.escape(base) + r"(_\w*)?$")


def _matching(adv, regs):
    """perfect matching accessor <-> column under the per-column rule regexes"""
    n = len(regs)
    if len(adv) != n:
        return None
    match = [-1] * len(adv)

    def aug(i, seen):
        for k, a in enumerate(adv):
            if k in seen or not regs[i].match(a):
                continue
            seen.add(k)
            if match[k] == -1 or aug(match[k], seen):
                match[k] = i
                return True
        return False

    for i in range(n):
        if not aug(i, set()):
            return None
    return match


def _pos(t, obj):
    for j, c in enumerate(t.cols()):
        if c is obj:
            return j
    return None


def probe(t, variant, rng_pick):
    """composite accessor probe on live table t; returns list of (clause, text, sig-extra)"""
    S = serif()
    bad = []
    names0 = list(t.column_names())
    ncols = len(names0)
    if ncols == 0:
        return bad

    def simple_cols():
        return [(j, simple_accessor(names0, j)) for j in range(ncols) if simple_accessor(names0, j) is not None]

    if variant in ("dir-getattr", "dir-item", "repr"):
        dots = None
        if variant == "repr":
            r = repr(t)
            for line in r.split("\n"):
                toks = line.split()
                if toks and all(x.startswith(".") or x == "..." for x in toks) and any(x.startswith(".") for x in toks):
                    dots = [x[1:] if x != "..." else None for x in toks]
                    break
        adv = advertised(t)
        for a in adv:
            if not a.isidentifier():
                bad.append(("C17/not-identifier", "advertised accessor %r is not an identifier" % a, {}))
            if a in public_names():
                bad.append(("C17/shadows-public", "advertised accessor %r is a public Vector/Table attribute" % a, {}))
        if len(adv) != ncols:
            bad.append(("C17/not-bijective", "%d columns %r but %d advertised accessors %r" % (ncols, names0, len(adv), adv), {"how": "count"}))
            return bad
        regs = [rule_regex(i, s) for i, s in enumerate(names0)]
        if _matching(adv, regs) is None:
            bad.append(("C17/sanitisation-rule", "accessors %r cannot be matched to stored names %r under the documented rules" % (adv, names0), {}))
        seen_pos = {}
        for a in adv:
            try:
                c = getattr(t, a)
            except AttributeError:
                bad.append(("C17/getattr-wrong-column", "advertised accessor %r raises AttributeError (stored names %r)" % (a, names0), {"how": "raises"}))
                continue
            p = _pos(t, c) if isinstance(c, S.Vector) else None
            if p is None:
                bad.append(("C17/getattr-wrong-column", "advertised accessor %r does not resolve to a column of the table" % a, {"how": "not-a-column"}))
                continue
            if not regs[p].match(a):
                bad.append(("C17/getattr-wrong-column", "accessor %r resolves to column %d whose stored name is %r" % (a, p, names0[p]), {"how": "wrong-position"}))
            if p in seen_pos:
                bad.append(("C17/not-bijective", "accessors %r and %r both resolve to column %d" % (seen_pos[p], a, p), {"how": "two-to-one"}))
            seen_pos[p] = a
        if not bad and len(seen_pos) != ncols:
            bad.append(("C17/not-bijective", "columns %s have no accessor" % sorted(set(range(ncols)) - set(seen_pos)), {"how": "unreached"}))
        if variant == "dir-item" and not bad:
            by_pos = {p: a for p, a in seen_pos.items()}
            p = sorted(by_pos)[rng_pick % len(by_pos)]
            bad.extend(_item_assign(t, by_pos[p], p, "after-dir-and-getattr"))
        if variant == "repr" and dots is not None and not bad:
            shown = list(range(ncols)) if ncols <= 10 else list(range(5)) + [None] + list(range(ncols - 5, ncols))
            if len(dots) != len(shown):
                bad.append(("C17/repr-dot-row", "dot row %r does not have one entry per displayed column" % (dots,), {}))
            else:
                for d, p in zip(dots, shown):
                    if p is None:
                        continue
                    if seen_pos.get(p) != d:
                        bad.append(("C17/repr-dot-row", "repr shows .%s above column %d, dir()/getattr say %r" % (d, p, seen_pos.get(p)), {}))
                        break
    elif variant == "item-first":
        sc = simple_cols()
        if sc:
            j, acc = sc[rng_pick % len(sc)]
            bad.extend(_item_assign(t, acc, j, "item-first"))
    elif variant == "getattr-first":
        sc = simple_cols()
        if sc:
            j, acc = sc[rng_pick % len(sc)]
            try:
                c = getattr(t, acc)
                if c is not t.cols()[j]:
                    bad.append(("C17/getattr-wrong-column", "column %d is stored as %r but t.%s is not that column" % (j, names0[j], acc), {"how": "simple-name"}))
            except AttributeError:
                bad.append(("C17/getattr-wrong-column", "column %d is stored as %r but t.%s raises AttributeError" % (j, names0[j], acc), {"how": "simple-name-raises"}))
    elif variant == "str-index":
        # every occurrence's own name object is tried as the key (equal strings, distinct objects)
        for s in [n for n in names0 if isinstance(n, str)]:
            first = names0.index(s)
            try:
                c = t[s]
            except Warning:
                raise
            except Exception as ex:
                bad.append(("C17/string-index-not-first", "t[%r] raised %s although a column is stored under that name" % (s, type(ex).__name__), {}))
                ex = None
                continue
            if c is not t.cols()[first]:
                bad.append(("C17/string-index-not-first", "t[%r] is column %s, the first column stored under that name is %d" % (s, _pos(t, c), first), {}))
    if list(t.column_names()) != names0:
        bad.append(("C17/stored-name-altered", "probe %s changed the stored names %r -> %r" % (variant, names0, list(t.column_names())), {}))
    return bad


def _item_assign(scratch, acc, pos, when):
    """t[0, acc] = val must change exactly column `pos`. Performed on the live table
    (deepcopy of a Table does not work on this code base) and undone through the
    column objects, which leaves the accessor-map cache exactly as the probe found it."""
    bad = []
    if len(scratch) == 0:
        return bad
    before = [list(c) for c in scratch.cols()]
    marker = 424242
    try:
        scratch[0, acc] = marker
    except Warning:
        raise       # an escalated warning interrupts the probe; the operation is then not judged
    except Exception as ex:
        bad.append(("C17/itemassign-wrong-column", "t[0, %r] = v raised %s although %r is the accessor of column %d (%s)" % (
            acc, type(ex).__name__, acc, pos, when), {"how": "raises", "when": when}))
        ex = None
        return bad
    after = [list(c) for c in scratch.cols()]
    changed = [j for j in range(len(before)) if before[j] != after[j]]
    for j in changed:       # restore through the column itself (does not touch the accessor map)
        try:
            scratch.cols()[j][0] = before[j][0]
        except Exception as ex:
            ex = None
    if changed != [pos]:
        bad.append(("C17/itemassign-wrong-column", "t[0, %r] = v changed columns %s, expected [%d] (%s)" % (acc, changed, pos, when),
                    {"how": "wrong-column", "when": when}))
    return bad


# ----------------------------------------------------------------------------
# operations
# ----------------------------------------------------------------------------

@op("ntab", "construct")
def _ntab(world, rec, ctx):
    S = serif()
    n = rec["nrows"]
    cols = [S.Vector([10 * j + i for i in range(n)], name=V.dec(nm)) for j, nm in enumerate(rec["names"])]
    res = S.Table(cols)
    return _bind_result(world, rec, res, "ntab")


@op("nadd", "derive")
def _nadd(world, rec, ctx):
    S = serif()
    t = world.obj(rec["h"], "tab")
    n = len(t)
    res = t >> S.Vector([900 + i for i in range(n)], name=V.dec(rec["name"]))
    return _bind_result(world, rec, res, "nadd", 1)


@op("nprobe", "read")
def _nprobe(world, rec, ctx):
    t = world.obj(rec["h"], "tab")
    ctx.extra["c17"] = probe(t, rec["variant"], rec.get("pick", 0))
    return None


# ----------------------------------------------------------------------------
# generator
# ----------------------------------------------------------------------------

class NamesGen(Gen):
    def next(self, world):
        rec = Gen.next(self, world)
        # scoped environment fault: warnings escalated to errors during this one operation
        if rec.get("op") in ("setname", "rencol", "rencols", "nprobe", "view", "setattr", "nadd", "alias", "getitem", "ntab") \
                and self.rng.random() < self.k.get("p_werr", 0.0):
            rec["werr"] = True
        return rec

    def rand_name(self, allow_none=True):
        r = self.rng
        pool = self.k.get("names", POOL)
        nm = r.choice(pool)
        if nm is None and not allow_none:
            return r.choice(["a", "b", "zed"])
        return nm

    def g_ntab(self, world, infos):
        r = self.rng
        if r.random() < 0.04:
            k = r.randint(11, 12)
        else:
            k = r.randint(1, self.k.get("max_cols", 5))
        pool = self.k.get("names", POOL)
        names = []
        for _ in range(k):
            if names and r.random() < self.k.get("p_dupname", 0.2):
                names.append(r.choice(names))
            else:
                names.append(r.choice(pool))
        rec = {"op": "ntab", "out": self.new_h(), "names": V.enc_list(names), "nrows": r.randint(1, 3)}
        self.touch(rec["out"])
        return rec

    def g_nadd(self, world, infos):
        c = self.pick([i for i in infos if i.is_table and not i.weird and i.ncols > 0])
        if not c:
            return None
        rec = {"op": "nadd", "out": self.new_h(), "h": c.name, "name": V.enc(self.rand_name())}
        self.touch(rec["out"])
        return rec

    def g_nprobe(self, world, infos):
        r = self.rng
        c = self.pick([i for i in infos if i.is_table and not i.weird and i.ncols > 0])
        if not c:
            return None
        variant = r.choices(["dir-getattr", "dir-item", "repr", "item-first", "getattr-first", "str-index"],
                            self.k.get("probe_w", [3, 3, 2, 4, 3, 2]))[0]
        self.touch(c.name)
        return {"op": "nprobe", "h": c.name, "variant": variant, "pick": r.randrange(1 << 10)}

    def g_nview(self, world, infos):
        r = self.rng
        c = self.pick([i for i in infos if i.is_table and not i.weird and i.ncols > 0])
        if not c:
            return None
        rec = {"op": "view", "out": self.new_h(), "t": c.name, "how": "cols", "i": r.randrange(c.ncols)}
        self.touch(rec["out"], c.name)
        return rec

    def g_nsetname(self, world, infos):
        c = self.pick([i for i in infos if not i.is_table and i.view])
        if not c:
            return None
        rec = {"op": "setname", "h": c.name, "name": V.enc(self.rand_name())}
        self.touch(c.name)
        return rec

    def g_nalias(self, world, infos):
        c = self.pick([i for i in infos if not i.is_table and i.view and i.e.obj.name is None])
        if not c:
            return None
        return {"op": "alias", "h": c.name, "name": V.enc(self.rand_name(False))}

    def g_nsetattr(self, world, infos):
        r = self.rng
        c = self.pick([i for i in infos if i.is_table and not i.weird and i.ncols > 0])
        if not c:
            return None
        sc = [(j, simple_accessor(c.names, j)) for j in range(c.ncols) if simple_accessor(c.names, j)]
        if not sc:
            return None
        j, acc = r.choice(sc)
        self.touch(c.name)
        return {"op": "setattr", "t": c.name, "acc": acc, "i": j, "val": {"k": r.choice(["list", "vec"]), "v": [500 + i for i in range(c.n)]}}


class C17(Oracle):
    prop = "C17"

    def start(self, env):
        self.since = {}    # eid -> kinds of name-changing ops since the last probe of that table

    def after(self, env, rec, out, ctx, pre):
        w = env.world
        if out["st"] == "skip":
            return []
        if out["kind"] in ("rename", "write") and out["writer"] is not None:
            wr = w.entries.get(out["writer"])
            if wr is not None:
                tabs = [wr.eid] if wr.is_table else ([wr.role[1]] if wr.role[0] == "view" else [])
                how = rec["op"] + (":via-view" if not wr.is_table else "")
                for t in tabs:
                    self.since.setdefault(t, []).append(how)
        if rec.get("werr") and out["st"] == "exc" and out.get("warning"):
            env.probe("c17_op_interrupted_by_escalated_warning")
            return []       # the interrupted operation itself is not judged; what it leaves behind is
        if rec["op"] != "nprobe" or out["st"] != "ok":
            if rec["op"] == "nprobe" and out["st"] == "exc":
                e = w.handles.get(rec["h"])
                if e is not None and rec["variant"] == "repr":
                    return []   # repr totality is C20's subject, not claimed
                return [Violation("C17", "C17/getattr-wrong-column", "accessor probe %s raised %s: %s" % (rec["variant"], out["exc"], out.get("msg")),
                                  {"variant": rec["variant"], "how": "probe-raised:" + str(out["exc"])})]
            return []
        e = w.handles.get(rec["h"])
        hist = self.since.pop(e.eid, []) if e is not None else []
        env.probe("c17_probe_" + rec["variant"])
        if hist:
            env.probe("c17_probe_after_rename")
            if any(h.endswith(":via-view") for h in hist):
                env.probe("c17_probe_after_view_rename")
                if rec["variant"] == "item-first":
                    env.probe("c17_itemassign_before_getattr_after_view_rename")
        viols = []
        for clause, text, extra in ctx.extra.get("c17", [])[:1]:
            sig = {"variant": rec["variant"], "since": sorted(set(h.split(":")[0] + (":via-view" if h.endswith(":via-view") else "") for h in hist))}
            sig.update(extra)
            viols.append(Violation("C17", clause, "probe %s (name changes since last probe: %s): %s" % (rec["variant"], hist, text), sig))
        return viols
