"""C03 - a vector's reported dtype is always truthful (monitor, attached to every
vector any profile of this suite obtains: operands after the step, results, columns
of result tables)."""
import datetime as _dt

from simkit.engine import Oracle, Violation
from simkit.world import serif


def belongs(e, kind):
    if kind is object:
        return True
    try:
        if isinstance(e, kind):
            return True
    except TypeError:
        return True
    if kind is float and isinstance(e, (int, bool)):
        return True
    if kind is complex and isinstance(e, (int, float, bool)):
        return True
    if kind is _dt.datetime and isinstance(e, _dt.date):
        return True
    return False


def check_vec(v):
    """None or (clause, text, extra)"""
    s = v.schema()
    if s is None:
        return None
    kind = s.kind
    S = serif()
    if any(isinstance(e, S.Vector) for e in v):
        return None    # a non-table vector of vectors (what a ragged stack returns): outside the property
    for i, e in enumerate(v):
        if e is None:
            if not s.nullable:
                return ("C03/undeclared-none", "element %d is None but schema %r is not nullable" % (i, s),
                        {"declared": getattr(kind, "__name__", str(kind)), "elem": "NoneType"})
            continue
        if not belongs(e, kind):
            return ("C03/foreign-element", "element %d is %r (%s) but schema says %r" % (i, e, type(e).__name__, s),
                    {"declared": getattr(kind, "__name__", str(kind)), "elem": type(e).__name__})
    return None


def check_writeback(v):
    """second formulation: writing an element back into its own position is accepted
    and never changes the dtype. Performed on a copy so the history is not disturbed."""
    S = serif()
    n = len(v)
    if n == 0 or n > 8:
        return None
    s0 = v.schema()
    try:
        w = v.copy()
    except Exception as ex:
        ex = None
        return None
    if not isinstance(w, S.Vector) or isinstance(w, S.Table) or len(w) != n:
        return None
    for i in range(n):
        try:
            w[i] = w[i]
        except S.AliasError:
            return None
        except Exception as ex:
            name = type(ex).__name__
            ex = None
            return ("C03/writeback-rejected", "w[%d] = w[%d] raised %s on a copy of the vector (schema %r)" % (i, i, name, s0),
                    {"declared": getattr(s0.kind, "__name__", "?") if s0 else None, "exc": name})
        s1 = w.schema()
        if repr(s1) != repr(s0):
            return ("C03/writeback-retyped", "w[%d] = w[%d] changed the schema %r -> %r" % (i, i, s0, s1),
                    {"declared": getattr(s0.kind, "__name__", "?") if s0 else None})
    return None


class C03(Oracle):
    prop = "C03"

    def after(self, env, rec, out, ctx, pre):
        if out["st"] == "skip":
            return []
        S = serif()
        w = env.world
        viols = []
        for e in w.live_entries():
            if env.prev.get(e.eid) == env.cur.get(e.eid):
                continue
            vecs = []
            if e.is_table:
                try:
                    for j, c in enumerate(e.obj.cols()):
                        if isinstance(c, S.Vector) and not isinstance(c, S.Table):
                            vecs.append((c, "column %d of %s" % (j, w.name_of(e))))
                except Exception as ex:
                    ex = None
            else:
                vecs.append((e.obj, w.name_of(e)))
            for v, label in vecs:
                try:
                    if any(isinstance(x, S.Vector) for x in v):
                        continue     # non-table vector of vectors: outside the property
                except Exception as ex:
                    ex = None
                    continue
                env.probe("c03_vectors_checked")
                try:
                    bad = check_vec(v)
                    if bad is None:
                        bad = check_writeback(v)
                        env.probe("c03_writebacks_checked")
                except Exception as ex:
                    bad = None
                    ex = None
                if bad:
                    clause, text, extra = bad
                    new = e.eid not in env.prev
                    sig = {"op": rec["op"], "result": new, "in_table": e.is_table}
                    if rec["op"] in ("binop", "unop"):
                        sig["fn"] = rec.get("fn")
                        sig["refl"] = bool(rec.get("refl"))
                    if rec["op"] in ("set", "tset"):
                        sig["cls"] = rec.get("cls")
                    sig.update(extra)
                    viols.append(Violation("C03", clause, "after %s (%s): %s: %s" % (rec["op"], out["st"], label, text), sig))
                    return viols
        return viols
