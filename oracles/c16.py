"""C16 - fingerprints track content: never stale, notice every change.

Self-relative: at every scheduler-issued fingerprint() probe on x the value must equal
the fingerprint of an object rebuilt from x's plain values through the public
constructors. Between two probes of the same object: identical contents => identical
fingerprint; a hash-distinguishable content change => a different fingerprint.
The oracle itself never calls fingerprint() on a live object except at the end of a run.
"""
import math
import sys

from simkit.engine import Oracle, Violation
from simkit.world import serif


def _plain(o):
    """plain python contents: list for a vector, list of lists for a table"""
    S = serif()
    if isinstance(o, S.Table):
        out = [list(c) for c in o.cols()]
        if any(isinstance(x, S.Vector) for c in out for x in c):
            raise ValueError("nested")
        return out
    out = list(o)
    if any(isinstance(x, S.Vector) for x in out):
        raise ValueError("nested")
    return out


def _fresh(x):
    """an equal element that is a different object where Python allows one (tuples): "rebuilt from
    its plain values" must not mean "from the very same element objects" """
    if type(x) is tuple and x:
        return tuple([_fresh(y) for y in x])
    return x


def _rebuild(o):
    S = serif()
    if isinstance(o, S.Table):
        cols = [S.Vector([_fresh(x) for x in c], name=c.name) for c in o.cols()]
        if not cols:
            return S.Table({})
        return S.Table(cols)
    return S.Vector([_fresh(x) for x in o])


def _isnan(x):
    return isinstance(x, float) and math.isnan(x)


def _distinguishable(a, b):
    """True if plain contents a, b (same shape) differ at a position by values Python's
    own == and hash() tell apart; None if shapes differ (nothing to say)"""
    if isinstance(a, list) and isinstance(b, list):
        if len(a) != len(b):
            return None
        any_d = False
        for x, y in zip(a, b):
            if isinstance(x, list) or isinstance(y, list):
                d = _distinguishable(x, y)
                if d is None:
                    return None
                any_d = any_d or d
            else:
                if _isnan(x) or _isnan(y):
                    continue
                if isinstance(x, (tuple, set, dict)) or isinstance(y, (tuple, set, dict)):
                    continue      # container elements are hashed structurally, not by hash(); no claim
                try:
                    # "pairs Python's own hash() cannot tell apart": equal hashes, or hashes
                    # congruent modulo Python's own hash modulus (the sign convention of int hashes)
                    if x != y and (hash(x) - hash(y)) % sys.hash_info.modulus != 0:
                        any_d = True
                except Exception:
                    continue
        return any_d
    return None


def _same_plain(a, b):
    if isinstance(a, list) and isinstance(b, list):
        return len(a) == len(b) and all(_same_plain(x, y) for x, y in zip(a, b))
    if _isnan(a) and _isnan(b):
        return True
    if _isnan(a) or _isnan(b):
        return False
    return type(a) is type(b) and a == b


def _content(s):
    if s and s[0] == "V":
        return s[1]
    if s and s[0] == "T":
        return tuple(c[1] if c and c[0] == "V" else c for c in s[2])
    return s


class C16(Oracle):
    prop = "C16"

    def start(self, env):
        self.last = {}      # eid -> (fp, plain contents at that probe)
        self.changed_by = {}  # eid -> op kind of the last step that changed its contents since the last probe
        self.nchanges = {}    # eid -> number of steps that changed its contents since the last probe

    def after(self, env, rec, out, ctx, pre):
        if out["st"] == "skip":
            return []
        for eid, s in env.cur.items():
            if eid in env.prev and _content(env.prev[eid]) != _content(s):
                self.nchanges[eid] = self.nchanges.get(eid, 0) + 1
                path = rec["op"]
                w = env.world.entries.get(out["writer"]) if out["writer"] is not None else None
                if w is not None and w.eid != eid:
                    path += ":via-" + ("column-view" if not w.is_table else "table")
                self.changed_by[eid] = path
        if rec["op"] == "read" and rec.get("what") == "fp" and out["st"] == "ok":
            e = env.world.handles.get(rec["h"])
            if e is not None:
                return self._probe(env, e, ctx.extra.get("fp"))
        return []

    def _probe(self, env, e, fp):
        viols = []
        env.probe("c16_probes")
        try:
            plain = _plain(e.obj)
            ref = _rebuild(e.obj).fingerprint()
        except Exception as ex:
            env.probe("c16_rebuild_failed")
            ex = None
            return viols
        warm = e.eid in self.last
        via = self.changed_by.get(e.eid)
        sig = {"obj": "table" if e.is_table else "vector", "role": e.role[0], "warm": warm, "write": via}
        if warm and via:
            env.probe("c16_fp_warm_then_write")
            if via.endswith("via-column-view"):
                env.probe("c16_fp_warm_then_write_via_column")
        if fp != ref:
            viols.append(Violation("C16", "C16/stale",
                                   "%s %s: fingerprint() differs from the fingerprint of an object rebuilt from its current values "
                                   "(memo %s; last change by %s)" % (sig["obj"], env.world.name_of(e), "warm" if warm else "cold", via), sig))
        elif warm:
            lfp, lplain = self.last[e.eid]
            if _same_plain(lplain, plain):
                if lfp != fp:
                    viols.append(Violation("C16", "C16/changed-by-read",
                                           "%s %s: same contents as at the previous probe, different fingerprint" % (sig["obj"], env.world.name_of(e)), sig))
            else:
                d = _distinguishable(lplain, plain)
                # the statement speaks about *a* write: judged only when exactly one step
                # changed the contents since the previous probe
                if d and self.nchanges.get(e.eid, 0) == 1:
                    env.probe("c16_sensitivity_checked")
                    if lfp == fp:
                        viols.append(Violation("C16", "C16/insensitive",
                                               "%s %s: contents changed (%s -> %s) but the fingerprint did not" % (
                                                   sig["obj"], env.world.name_of(e), lplain, plain), sig))
        self.last[e.eid] = (fp, plain)
        self.changed_by.pop(e.eid, None)
        self.nchanges.pop(e.eid, None)
        return viols

    def finish(self, env):
        viols = []
        for e in env.world.live_entries():
            try:
                fp = e.obj.fingerprint()
            except Exception as ex:
                ex = None
                continue
            viols.extend(self._probe(env, e, fp))
            if viols:
                break
        return viols
