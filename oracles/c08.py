"""C08 - in-place assignment matches list assignment, promotes or rejects, and is atomic.

fault_enumeration: for every seeded base scenario (a short history that puts the
target in an interesting state, then one assignment) the assignment is re-executed
  (a) clean, with counting instrumentation -> N call-backs into caller objects,
  (b) once per k < N with an InjectedFault at call-back k,
  (c) once per position / kind of natural invalidity (bad index, length +-1,
      incompatible element, unrepresentable element, missing name).
A variant is the trace  setup + [assignment record]  and is judged on its last record,
so replay and minimisation are those of any other trace.
"""
import ast
import copy
import hashlib
import json
import random

from simkit import values as V
from simkit import engine
from simkit.gen import Gen, Info, simple_accessor
from simkit.ops import exec_op
from simkit.world import World, snap_any, serif, what_changed, diff_path
from oracles.c03 import check_vec

NUM = ["bool", "int", "float", "complex"]


def _kind_name(dt):
    return getattr(dt.kind, "__name__", str(dt.kind)) if dt is not None else None


def classify(kind, val):
    """relation of a python value to a column kind, per the statement's promotion rule"""
    if val is None:
        return "none"
    if type(val) in V.SUBS:
        return "unspecified"
    vk = V.kind_of(val)
    if kind is None or kind == "object":
        return "same"
    if vk == kind:
        return "same"
    if kind in NUM and vk in NUM:
        return "wider" if NUM.index(vk) > NUM.index(kind) else "narrower"
    if kind == "date" and vk == "datetime":
        return "wider"
    if kind == "datetime" and vk == "date":
        return "narrower"
    return "incompat"


def _conv(x, kind):
    """the documented conversion of an existing element when a column is promoted"""
    import datetime as _dt
    try:
        if x is None:
            return None
        if kind == "float" and isinstance(x, (int, bool)):
            return float(x)
        if kind == "complex" and isinstance(x, (int, float, bool)):
            return complex(x)
        if kind == "int" and isinstance(x, bool):
            return int(x)
        if kind == "datetime" and isinstance(x, _dt.date) and not isinstance(x, _dt.datetime):
            return _dt.datetime.combine(x, _dt.time())
    except Exception:
        return x
    return x


def widest(kind, vals):
    k = kind
    for v in vals:
        c = classify(k, v)
        if c == "wider":
            k = V.kind_of(v)
    return k


# ----------------------------------------------------------------------------
# list-assignment model
# ----------------------------------------------------------------------------

def positions(n, key):
    """addressed positions (in assignment order) of a key spec on a sequence of length n;
    raises IndexError / ValueError for keys the statement calls invalid"""
    k = key["k"]
    if k == "int":
        i = key["i"]
        if i < 0:
            i += n
        if not 0 <= i < n:
            raise IndexError(i)
        return [i], True
    if k == "slice":
        return list(range(n))[slice(key.get("a"), key.get("b"), key.get("s"))], False
    if k in ("boollist", "boolvec"):
        if len(key["v"]) != n:
            raise ValueError("mask length")
        return [i for i, b in enumerate(key["v"]) if b], False
    if k in ("flist", "ftuple") and key["v"] and all(isinstance(b, bool) for b in key["v"]):
        if k == "ftuple":
            raise TypeError("tuple of bools is not a documented key form")
        if len(key["v"]) != n:
            raise ValueError("mask length")
        return [i for i, b in enumerate(key["v"]) if b], False
    if k in ("intlist", "inttuple", "intvec", "flist", "ftuple"):
        out = []
        for i in key["v"]:
            if i < 0:
                i += n
            if not 0 <= i < n:
                raise IndexError(i)
            out.append(i)
        return out, False
    raise TypeError(k)


def val_items(spec):
    """(is_scalar, list of python values) of a value spec"""
    k = spec["k"]
    if k == "s":
        return True, [V.dec(spec["v"])]
    if k in ("list", "tuple", "vec", "gen", "fseq", "flist", "ftuple", "fgen"):
        return False, V.dec_list(spec["v"])
    raise TypeError(k)


def model_assign(before, key, spec):
    """python-list model; returns (new list, assigned values) or raises"""
    n = len(before)
    pos, single = positions(n, key)
    scalar, vals = val_items(spec)
    L = list(before)
    if single:
        if scalar:
            L[pos[0]] = vals[0]
            return L, [vals[0]]
        raise TypeError("sequence into one position")   # not fixed by the statement
    if scalar:
        for p in pos:
            L[p] = vals[0]
        return L, [vals[0]] * len(pos)
    if len(vals) != len(pos):
        raise ValueError("length mismatch")
    for p, v in zip(pos, vals):
        L[p] = v
    return L, list(vals)


# ----------------------------------------------------------------------------
# evaluation of one variant
# ----------------------------------------------------------------------------

def _run_setup(trace):
    w = World()
    for rec in trace[:-1]:
        exec_op(w, rec)
    return w


def _vec_after_checks(S, v, before_list, key, spec, name_before, kind_before, nullable_before):
    """success oracle for one vector; returns None or (clause, text, part)"""
    try:
        want, assigned = model_assign(before_list, key, spec)
    except (IndexError, ValueError) as ex:
        return ("C08/wrong-contents", "the assignment is invalid for a list (%s: %s) but was accepted" % (type(ex).__name__, ex), "accepted-invalid")
    except TypeError:
        return None
    got = list(v)
    if len(got) != len(before_list):
        return ("C08/wrong-contents", "length changed %d -> %d" % (len(before_list), len(got)), "length")
    k_now = _kind_name(v.schema())
    for i, (g, wv) in enumerate(zip(got, want)):
        # exactly the list-assignment value, or its documented conversion to the column's kind
        # (type-and-repr comparison: 0.0 is not -0.0, True is not 1)
        if type(wv) in V.SUBS and V.same_value(g, V.SUBS[type(wv)](wv)):
            continue            # a subclass instance stored as its base value
        if not V.same_value(g, wv) and not V.same_value(g, _conv(wv, k_now)):
            return ("C08/wrong-contents", "position %d holds %r, list assignment gives %r" % (i, g, wv), "contents")
    if V.tv(v.name) != name_before:
        return ("C08/wrong-contents", "name changed %s -> %r" % (name_before, v.name), "name")
    # promotion / rejection rule
    classes = [classify(kind_before, x) for x in assigned]
    if kind_before not in (None, "object") and "unspecified" not in classes:
        if "incompat" in classes:
            bad = assigned[classes.index("incompat")]
            return ("C08/not-rejected", "%r (%s) accepted into a %s column" % (bad, V.kind_of(bad), kind_before), "accepted-incompatible")
        sch = v.schema()
        k_after = _kind_name(sch)
        want_kind = widest(kind_before, [x for x in assigned if x is not None])
        if k_after != want_kind:
            return ("C08/wrong-dtype", "column kind %s after assigning %s into %s, the rule gives %s" % (
                k_after, sorted(set(classes)), kind_before, want_kind), "kind")
        if sch is not None:
            if nullable_before and not sch.nullable:
                return ("C08/wrong-dtype", "nullability dropped", "nullable")
            if "none" in classes and not sch.nullable:
                return ("C08/wrong-dtype", "None stored but the column is not nullable", "nullable")
        bad = check_vec(v)
        if bad:
            return ("C08/wrong-dtype", "after the assignment: " + bad[1], "elements")
        if k_after != kind_before and k_after in _STRICT:
            # "promotes the whole column with existing elements converted": the elements that were
            # not assigned must now be of the new kind itself, not merely belong to it by widening
            try:
                pos = set(positions(len(before_list), key)[0])
            except Exception:
                pos = set(range(len(before_list)))
            for i, g in enumerate(got):
                if i in pos or g is None:
                    continue
                if type(g) is not _STRICT[k_after]:
                    return ("C08/wrong-dtype", "column promoted %s -> %s but existing element %d is still %r (%s)" % (
                        kind_before, k_after, i, g, type(g).__name__), "not-converted")
    return None


import datetime as _dt
_STRICT = {"int": int, "float": float, "complex": complex, "datetime": _dt.datetime}


def _should_succeed(before_list, key, spec, kind_before):
    """'same'/'wider'/... if list assignment is valid, no value is incompatible and every
    conversion the promotion rule needs is representable; else None"""
    try:
        want, assigned = model_assign(before_list, key, spec)
    except Exception:
        return None
    if kind_before in (None, "object"):
        return "same"
    classes = [classify(kind_before, x) for x in assigned]
    if "incompat" in classes or "unspecified" in classes or not assigned:
        return None
    k2 = widest(kind_before, [x for x in assigned if x is not None])
    try:
        for x in list(want) + list(before_list):
            if x is None:
                continue
            if k2 == "float":
                float(x)
            elif k2 == "complex":
                complex(x)
    except Exception:
        return None
    return "wider" if "wider" in classes else ("none" if "none" in classes else "same")


def _usable_vec(S, v, shared):
    """bounded liveness after a failure: fingerprint coherent, next valid write works"""
    try:
        fp = v.fingerprint()
        ref = S.Vector(list(v)).fingerprint()
        if fp != ref:
            return "fingerprint() differs from that of a rebuild"
    except Exception as ex:
        return "fingerprint() raised %s" % type(ex).__name__
    if len(v) == 0:
        return None
    try:
        x = v[0]
        v[0] = x
    except S.AliasError:
        if not shared:
            return "a following valid write by the sole owner is refused with AliasError"
    except Exception as ex:
        name = type(ex).__name__
        if check_vec(v) is None:
            return "a following valid write-back raised %s" % name
    return None


def _usable_tab(S, t):
    try:
        names = list(t.column_names())
        for j in range(len(names)):
            acc = simple_accessor(names, j)
            if acc is not None:
                if getattr(t, acc) is not t.cols()[j]:
                    return "accessor %r no longer resolves to column %d" % (acc, j)
        fp = t.fingerprint()
        cols = [S.Vector(list(c), name=c.name) for c in t.cols()]
        if cols and fp != S.Table(cols).fingerprint():
            return "table fingerprint() differs from that of a rebuild"
    except Exception as ex:
        return "table unusable: %s" % type(ex).__name__
    return None


def eval_variant(trace, clean_final=None):
    """execute setup + last record in a fresh world and judge the last record.
    Returns dict(outcome, ticks, fired, violations[list of dict], final snapshot, state key)."""
    S = serif()
    w = _run_setup(trace)
    rec = trace[-1]
    op = rec["op"]
    tname = rec.get("h") if op == "set" else rec.get("t")
    ent = w.handles.get(tname)
    res = {"st": "skip", "exc": None, "ticks": 0, "fired": None, "violations": [], "final": None, "key": None}
    if ent is None:
        return res
    before_all = {e.eid: snap_any(e.obj) for e in w.live_entries()}
    shared = False
    if op == "set":
        tgt = ent.obj
        before_list = list(tgt)
        sch = tgt.schema()
        kind_before, nullable_before = _kind_name(sch), (bool(sch.nullable) if sch is not None else None)
        name_before = V.tv(tgt.name)
        shared = any("inp:" in t for t in ent.tags) and sum(
            1 for e in w.live_entries() if e.tags & ent.tags) > 1
    else:
        tab = ent.obj
        cols_before = [list(c) for c in tab.cols()]
        kinds_before = [(_kind_name(c.schema()), bool(c.schema().nullable) if c.schema() is not None else None) for c in tab.cols()]
        names_before = [V.tv(c.name) for c in tab.cols()]
    out, ctx = exec_op(w, rec)
    res.update(st=out["st"], exc=out["exc"], ticks=out["ticks"], fired=out["fired"])
    if out["st"] == "skip":
        return res
    after_all = {e.eid: snap_any(e.obj) for e in w.live_entries()}
    res["final"] = after_all.get(ent.eid)
    viols = res["violations"]
    variant = rec.get("variant", "clean")
    sig = {"target": {"set": "vector", "tset": "table", "rencols": "names", "rencol": "names"}[op],
           "key": (rec.get("key") or rec.get("rows") or {}).get("k"), "variant": variant.split("@")[0],
           "valform": (rec.get("val") or rec.get("olds") or {}).get("k"), "shape": rec.get("shape"),
           "view": ent.role[0] == "view"}

    def add(clause, text, part):
        s = dict(sig)
        s["part"] = part
        viols.append({"property": "C08", "clause": clause, "sig": s, "step": len(trace) - 1,
                      "detail": "%s %s [%s]: %s" % (op, json.dumps({k: rec[k] for k in ("key", "rows", "cols", "val", "olds", "news") if k in rec}, sort_keys=True), variant, text)})

    # nothing but the target (and, for a column view, its table) may change, ever
    entitled = w.entitled(ent)
    for eid, s0 in before_all.items():
        if eid not in entitled and after_all.get(eid) != s0 and eid in after_all:
            add("C08/wrong-contents", "another object (%s) changed" % w.name_of(w.entries[eid]), "other-object")

    failed = out["st"] == "exc"
    injected_fired = out["fired"] is not None
    if failed:
        # ---- any failure: the pre-state is intact
        changed = [eid for eid in entitled if eid in before_all and after_all.get(eid) != before_all[eid]]
        if changed:
            eid = changed[0]
            part = what_changed(before_all[eid], after_all[eid])
            if op == "tset" and part == "contents":
                p = diff_path(before_all[eid], after_all[eid])
                part = "sibling-column" if p.startswith("columns") else part
            add("C08/not-atomic", "failed with %s but %s changed at %s" % (out["exc"], w.name_of(w.entries[eid]), diff_path(before_all[eid], after_all[eid])), part)
        else:
            if op == "set":
                why = _usable_vec(S, ent.obj, shared)
                if why and out["exc"] != "AliasError":
                    add("C08/incoherent-after-failure", "failed with %s, state intact, but %s" % (out["exc"], why), "usable")
            else:
                why = _usable_tab(S, ent.obj)
                if why:
                    add("C08/incoherent-after-failure", "failed with %s, state intact, but %s" % (out["exc"], why), "usable")
        # ---- a valid assignment must not be refused (list assignment would succeed;
        # wider compatible kinds promote)
        if op == "set" and variant == "clean" and out["exc"] not in ("AliasError", "InjectedFault") and not changed \
                and rec["val"]["k"] not in ("gen", "fgen"):
            why = _should_succeed(before_list, rec["key"], rec["val"], kind_before)
            if why:
                add("C08/wrong-dtype" if why == "wider" else "C08/wrong-contents",
                    "a valid assignment (%s value) was refused with %s: %s" % (why, out["exc"], out.get("msg", "")),
                    "promotion-refused" if why == "wider" else "valid-rejected")
        # ---- rejection type
        if op == "set" and rec.get("expect") == "reject" and out["exc"] not in ("SerifTypeError", "AliasError", "InjectedFault"):
            add("C08/not-rejected", "incompatible value rejected with %s, not SerifTypeError" % out["exc"], "exception-type")
    else:
        if injected_fired:
            # swallowed fault: only acceptable if the complete fault-free result was stored
            if clean_final is not None and res["final"] != clean_final:
                add("C08/partial-on-swallowed-fault", "injected fault at call-back %s was swallowed and the result differs from the fault-free one" % rec.get("fault"), "swallowed")
        elif op == "set":
            bad = _vec_after_checks(S, ent.obj, before_list, rec["key"], rec["val"], name_before, kind_before, nullable_before)
            if bad:
                add(bad[0], bad[1], bad[2])
        elif op == "tset":
            bad = _tab_after_checks(S, ent.obj, cols_before, kinds_before, names_before, rec)
            if bad:
                add(bad[0], bad[1], bad[2])
    res["key"] = (op, sig["key"], sig["valform"], sig["shape"], sig["variant"], out["st"], out["exc"],
                  kind_before if op == "set" else None, rec.get("cls"))
    return res


def _col_positions(names, ncols, cols):
    if cols is None:
        return list(range(ncols))
    k = cols["k"]
    if k == "int":
        i = cols["i"]
        return [i if i >= 0 else i + ncols]
    if k == "slice":
        return list(range(ncols))[slice(cols.get("a"), cols.get("b"), cols.get("s"))]
    if k == "str":
        return [names.index(cols["v"])]
    if k == "mixed":
        return [names.index(c) if isinstance(c, str) else (c if c >= 0 else c + ncols) for c in cols["v"]]
    raise TypeError(k)


def _tab_after_checks(S, tab, cols_before, kinds_before, names_before, rec):
    """success oracle for table item assignment: addressed cells as list assignment per
    column, all other cells untouched, promotion per column"""
    ncols = len(cols_before)
    names = [ast.literal_eval(n[1]) if n[0] == "str" else None for n in names_before]
    try:
        cpos = _col_positions(names, ncols, rec.get("cols"))
    except Exception:
        return None
    rows = rec["rows"]
    val = rec["val"]
    shape = rec.get("shape")
    # per-column value spec
    per_col = {}
    try:
        if val["k"] == "s":
            for j in cpos:
                per_col[j] = val
        elif shape == "row":
            items = V.dec_list(val["v"])
            if len(items) != len(cpos):
                return ("C08/wrong-contents", "row of %d values accepted for %d columns" % (len(items), len(cpos)), "accepted-invalid")
            for j, x in zip(cpos, items):
                per_col[j] = {"k": "s", "v": V.enc(x)}
        elif shape == "column":
            per_col[cpos[0]] = {"k": "list", "v": val["v"]}
        elif shape == "region":
            if len(val["v"]) != len(cpos):
                return None
            for j, x in zip(cpos, val["v"]):
                per_col[j] = {"k": "list", "v": x["v"]}
        elif shape == "table":
            for j, (_, vals) in zip(cpos, val["cols"]):
                per_col[j] = {"k": "list", "v": vals}
        else:
            return None
    except Exception:
        return None
    if len(set(cpos)) != len(cpos):
        return None   # a column addressed twice: order of application not fixed by the statement
    got_cols = tab.cols()
    if [V.tv(c.name) for c in got_cols] != names_before:
        return ("C08/wrong-contents", "column names changed", "name")
    for j in range(ncols):
        if j in per_col:
            bad = _vec_after_checks(S, got_cols[j], cols_before[j], rows, per_col[j], names_before[j], kinds_before[j][0], kinds_before[j][1])
            if bad:
                return (bad[0], "column %d: %s" % (j, bad[1]), bad[2])
        else:
            if [V.tv(x) for x in got_cols[j]] != [V.tv(x) for x in cols_before[j]]:
                return ("C08/wrong-contents", "column %d was not addressed but changed" % j, "unaddressed-cell")
    return None


# ----------------------------------------------------------------------------
# scenario generation
# ----------------------------------------------------------------------------

SETUP_W = {"vec": 3, "copy": 1, "binop": 1, "read": 2, "setname": 1}


def gen_scenario(rng):
    """returns (setup trace, base assignment record)"""
    S = serif()
    knobs = {"p_fault": 0.0, "p_natural": 0.0, "p_wider": 0.22, "p_incompat": 0.1, "p_none_write": 0.12, "p_subclass": 0.06,
             "max_objs": 6, "rare": 0.02, "p_none": 0.15, "p_empty": 0.06}
    g = Gen(rng, {"vec": 1}, knobs)
    w = World()
    setup = []

    def do(rec):
        setup.append(rec)
        exec_op(w, rec)

    if rng.random() < 0.03:
        # a vector beyond the library's size-dependent branches, written through one long contiguous slice
        kd = rng.choice(["int", "bool", "date", "float"])
        n = rng.choice([1001, 1002, 1500])
        do({"op": "vec", "out": g.new_h(), "vals": V.enc_list([V.pick_value(rng, kd, 0.0) for _ in range(n)]), "form": "list", "name": "big"})
        if rng.random() < 0.5:
            do({"op": "read", "h": setup[-1]["out"], "what": "fp"})
        a = rng.choice([0, 1, 2])
        b = rng.choice([None, n - 1, n - 2]) if a else rng.choice([n - 1, n - 2])
        cls = rng.choice(["wider", "same", "none", "incompat"])
        val = {"same": V.pick_value(rng, kd, 0.0), "none": None, "incompat": "zz" if kd != "str" else 1,
               "wider": V.pick_value(rng, V.WIDER[kd][0], 0.0) if kd in V.WIDER else V.pick_value(rng, kd, 0.0)}[cls]
        return setup, {"op": "set", "h": setup[0]["out"], "key": {"k": "slice", "a": a, "b": b, "s": None},
                       "val": {"k": "s", "v": V.enc(val)}, "cls": cls}
    mode = rng.choices(["vec", "promoted", "view", "shared", "tset", "rencols", "vec_fp"], [30, 8, 14, 5, 28, 10, 5])[0]
    target = None
    planted = False
    if mode in ("vec", "promoted", "vec_fp", "shared"):
        if mode == "shared":
            do(g.g_input_tuple(w, []))
            inp = setup[-1]["inp"]
            do({"op": "vec_of_input", "out": g.new_h(), "inp": inp})
            do({"op": "vec_of_input", "out": g.new_h(), "inp": inp, "name": "s"})
            target = setup[-1]["out"]
        else:
            do(g.g_vec(w, []))
            target = setup[-1]["out"]
        if mode == "promoted":
            infos = [Info(e) for e in w.live_entries()]
            kd = infos[0].kind
            if kd in V.WIDER and infos[0].n:
                do({"op": "set", "h": target, "key": {"k": "int", "i": 0},
                    "val": {"k": "s", "v": V.enc(V.pick_value(rng, V.WIDER[kd][0], 0.0))}})
        if mode == "vec_fp" or rng.random() < 0.3:
            do({"op": "read", "h": target, "what": "fp"})
    elif mode == "view":
        do(g.g_tab_dict(w, []))
        t = setup[-1]["out"]
        if rng.random() < 0.4:
            do({"op": "read", "h": t, "what": "fp"})
        infos = [Info(e) for e in w.live_entries()]
        do(g.g_view(w, infos))
        target = setup[-1]["out"]
    else:
        g.k["max_cols"] = 4
        g.k["rare"] = 0.08          # unrepresentable ints (10**400) inside table columns: promotion can fail late
        if rng.random() < 0.3:
            g.k["kinds"] = ["int", "int", "bool", "float"]      # several columns of one kind: broadcasts hit them all
        do(g.g_tab_dict(w, []))
        target = setup[-1]["out"]
        if rng.random() < 0.25:
            # an int too large for a float in some int column: a later promotion of that column fails
            planted = True
            ti = Info(w.handles[target])
            ints = [j for j in range(ti.ncols) if ti.colkinds[j] == "int"]
            if ints and ti.n:
                do({"op": "tset", "t": target, "rows": {"k": "int", "i": rng.randrange(ti.n)}, "cols": {"k": "int", "i": rng.choice(ints)},
                    "val": {"k": "s", "v": V.enc(V.BIG)}, "shape": "scalar"})
        if rng.random() < 0.3:
            do({"op": "read", "h": target, "what": "fp"})
        if rng.random() < 0.4:
            infos = [Info(e) for e in w.live_entries()]
            do(g.g_view(w, infos))
            if rng.random() < 0.6:
                # a rename through the live column: the accessor map is stale when the assignment starts
                do({"op": "setname", "h": setup[-1]["out"], "name": rng.choice(["x", "y", "zed", "a"])})
    e = w.handles.get(target)
    if e is None:
        return None
    infos = [Info(e)]
    g.focus = [target]
    if mode == "tset" and planted and infos[0].n and rng.random() < 0.4:
        # one wider scalar broadcast over whole rows: every int column is promoted, the one holding
        # the unrepresentable int cannot be
        n = infos[0].n
        rows = {"k": "int", "i": rng.randrange(n)} if rng.random() < 0.5 else {"k": "slice", "a": None, "b": None, "s": None}
        rec = {"op": "tset", "t": target, "rows": rows, "cols": None, "shape": "scalar",
               "val": {"k": "s", "v": V.enc(V.pick_value(rng, rng.choice(["float", "complex"]), 0.0))}}
    elif mode == "tset":
        rec = g.g_tset(w, infos)
    elif mode == "rencols":
        rec = g.g_rencols(w, infos)
    else:
        rec = g.g_set(w, infos) if infos[0].n or rng.random() < 0.5 else None
    if rec is None:
        return None
    if rec["op"] == "set" and rec["val"]["k"] in ("list", "tuple", "vec") and infos[0].kind in ("int", "float", "str", "bool") \
            and not infos[0].is_table and rng.random() < 0.12:
        # the values arrive as a Vector that *declares* the target's own dtype (whatever it holds)
        rec["val"] = {"k": "vec", "v": rec["val"]["v"], "declared": infos[0].kind}
        return setup, rec
    # instrumented forms for the enumerated fault points
    if rng.random() < 0.65:
        _instrument(rng, rec)
    return setup, rec


def _instrument(rng, rec):
    op = rec["op"]
    if op == "set":
        if rec["val"]["k"] in ("list", "tuple", "vec", "gen"):
            rec["val"]["k"] = rng.choice(["fseq", "flist", "ftuple", "fgen"])
        if rec["key"]["k"] in ("intlist", "boollist") and rng.random() < 0.5:
            rec["key"]["k"] = "flist"
        elif rec["key"]["k"] == "inttuple" and rng.random() < 0.5:
            rec["key"]["k"] = "ftuple"
    elif op == "tset":
        v = rec["val"]
        if rec.get("shape") in ("row", "column") and v["k"] in ("list", "tuple", "gen"):
            v["k"] = rng.choice(["fseq", "flist", "ftuple", "fgen"]) if rec["shape"] == "row" else rng.choice(["flist", "ftuple"])
        elif rec.get("shape") == "region":
            for x in v["v"]:
                if x["k"] in ("list", "tuple"):
                    # a one-column region whose only item is neither list, tuple nor Vector is read
                    # as a flat list of cell values (the item itself would be stored): keep such
                    # items list/tuple subclasses
                    x["k"] = rng.choice(["flist", "ftuple", "fseq", "list"] if len(v["v"]) > 1 else ["flist", "ftuple", "list"])
            if rng.random() < 0.5:
                v["outer"] = rng.choice(["flist", "ftuple"])
    elif op == "rencols":
        rec["olds"]["k"] = rng.choice(["fseq", "flist", "ftuple", "list"])
        rec["news"]["k"] = rng.choice(["fseq", "flist", "ftuple", "list"])
        # the names themselves are caller objects too: comparison / str() can raise
        if rng.random() < 0.4:
            rec["olds"]["fname"] = True
        if rng.random() < 0.5:
            rec["news"]["fname"] = True


def natural_variants(rng, setup, rec):
    """assignment records with one natural invalidity planted at each position"""
    out = []
    op = rec["op"]

    def var(label, fn):
        r = copy.deepcopy(rec)
        r.pop("fault", None)
        try:
            if fn(r) is False:
                return
        except Exception:
            return
        r["variant"] = "natural:" + label
        out.append(r)

    # target facts
    w = _run_setup(setup + [rec])
    e = w.handles.get(rec.get("h") if op == "set" else rec.get("t"))
    if e is None:
        return out
    if op == "set":
        n = len(e.obj)
        sch = e.obj.schema()
        kind = _kind_name(sch)
        key, val = rec["key"], rec["val"]
        if key["k"] == "int":
            var("index@0", lambda r: r["key"].__setitem__("i", n))
            var("index@0", lambda r: r["key"].__setitem__("i", -n - 1))
        elif key["k"] in ("intlist", "inttuple", "intvec", "flist", "ftuple") and key.get("v") and isinstance(key["v"][0], int) and not isinstance(key["v"][0], bool):
            for p in range(len(key["v"])):
                for bad_i in (n, -n - 1):       # both boundary values, at every position
                    var("index@%d" % p, lambda r, p=p, bad_i=bad_i: r["key"]["v"].__setitem__(p, bad_i))
        elif key["k"] in ("boollist", "boolvec"):
            var("masklen", lambda r: r["key"]["v"].append(True))
            if key["v"]:
                var("masklen", lambda r: r["key"]["v"].pop())
        if val["k"] != "s":
            var("length", lambda r: r["val"]["v"].append(r["val"]["v"][-1] if r["val"]["v"] else 1))
            if val["v"]:
                var("length", lambda r: r["val"]["v"].pop())
            if kind in V.INCOMPAT:
                for p in range(len(val["v"])):
                    def plant(r, p=p):
                        r["val"]["v"][p] = V.enc(V.pick_value(rng, rng.choice(V.INCOMPAT[kind]), 0.0))
                        r["expect"] = "reject"
                    var("type@%d" % p, plant)
            if kind == "float":
                for p in range(len(val["v"])):
                    var("overflow@%d" % p, lambda r, p=p: r["val"]["v"].__setitem__(p, V.enc(V.BIG)))
        else:
            if kind in V.INCOMPAT:
                def plant_s(r):
                    r["val"]["v"] = V.enc(V.pick_value(rng, rng.choice(V.INCOMPAT[kind]), 0.0))
                    r["expect"] = "reject"
                var("type@0", plant_s)
            if kind == "float":
                var("overflow@0", lambda r: r["val"].__setitem__("v", V.enc(V.BIG)))
    elif op == "tset":
        tab = e.obj
        kinds = [_kind_name(c.schema()) for c in tab.cols()]
        names = list(tab.column_names())
        try:
            cpos = _col_positions(names, len(kinds), rec.get("cols"))
        except Exception:
            cpos = []
        v = rec["val"]
        shape = rec.get("shape")
        if shape in ("row", "column"):
            var("length", lambda r: r["val"]["v"].append(r["val"]["v"][-1] if r["val"]["v"] else 1))
            if v["v"]:
                var("length", lambda r: r["val"]["v"].pop())
            for p in range(len(v["v"])):
                j = cpos[p] if shape == "row" and p < len(cpos) else (cpos[0] if cpos else None)
                if j is not None and kinds[j] in V.INCOMPAT:
                    var("type@%d" % p, lambda r, p=p, j=j: r["val"]["v"].__setitem__(p, V.enc(V.pick_value(rng, rng.choice(V.INCOMPAT[kinds[j]]), 0.0))))
        elif shape == "region":
            for ci, x in enumerate(v["v"]):
                if x["v"]:
                    var("length@%d" % ci, lambda r, ci=ci: r["val"]["v"][ci]["v"].pop())
                j = cpos[ci] if ci < len(cpos) else None
                if j is not None and kinds[j] in V.INCOMPAT:
                    for p in range(len(x["v"])):
                        var("type@%d.%d" % (ci, p), lambda r, ci=ci, p=p, j=j: r["val"]["v"][ci]["v"].__setitem__(p, V.enc(V.pick_value(rng, rng.choice(V.INCOMPAT[kinds[j]]), 0.0))))
            var("shape", lambda r: r["val"]["v"].pop() if len(r["val"]["v"]) > 1 else False)
        elif shape == "table":
            for ci in range(len(v["cols"])):
                if v["cols"][ci][1]:
                    var("length@%d" % ci, lambda r, ci=ci: r["val"]["cols"][ci][1].pop())
                j = cpos[ci] if ci < len(cpos) else None
                if j is not None and kinds[j] in V.INCOMPAT and v["cols"][ci][1]:
                    p = len(v["cols"][ci][1]) - 1
                    var("type@%d.%d" % (ci, p), lambda r, ci=ci, p=p, j=j: r["val"]["cols"][ci][1].__setitem__(p, V.enc(V.pick_value(rng, rng.choice(V.INCOMPAT[kinds[j]]), 0.0))))
        elif shape == "scalar":
            for j in cpos[-1:]:
                if kinds[j] in V.INCOMPAT and len(cpos) > 1:
                    var("type@last", lambda r, j=j: r["val"].__setitem__("v", V.enc(V.pick_value(rng, rng.choice(V.INCOMPAT[kinds[j]]), 0.0))))
        rows = rec["rows"]
        if rows["k"] == "int":
            nrows = len(tab)
            var("index@row", lambda r: r["rows"].__setitem__("i", nrows))
        if rec.get("cols") and rec["cols"]["k"] == "str":
            var("name", lambda r: r["cols"].__setitem__("v", "nope"))
        if rec.get("cols") and rec["cols"]["k"] == "mixed":
            var("name@last", lambda r: r["cols"]["v"].__setitem__(len(r["cols"]["v"]) - 1, "nope"))
    elif op == "rencols":
        k = len(rec["olds"]["v"])
        for p in range(k):
            var("missing@%d" % p, lambda r, p=p: r["olds"]["v"].__setitem__(p, "nope"))
        var("length", lambda r: r["news"]["v"].append("zz"))
        var("length", lambda r: r["olds"]["v"].append(r["olds"]["v"][0]))
    return out


# ----------------------------------------------------------------------------
# run / replay entry points
# ----------------------------------------------------------------------------

def run_index(check, seed, idx):
    engine.prepare_process()
    s = engine.seed_for(check, seed, idx)
    rng = random.Random(s)
    stats = {"ops": {}, "exc": {}, "faults": {}, "probes": {}, "outcomes": {}}

    def bump(cat, k, n=1):
        stats[cat][k] = stats[cat].get(k, 0) + n

    sc = None
    for _ in range(10):
        sc = gen_scenario(rng)
        if sc is not None:
            break
    hasher = hashlib.sha256()
    if sc is None:
        return {"trace": [], "digest": hasher.hexdigest(), "violations": [], "stats": stats, "states": [], "steps": 0, "prng": s}
    setup, rec = json.loads(json.dumps(sc))     # execute the JSON image, as a replay will
    states = set()
    viols = []
    first_trace = None
    evals = 0
    variants = []
    clean = copy.deepcopy(rec)
    clean.pop("fault", None)
    clean["variant"] = "clean"
    base = eval_variant(setup + [clean])
    evals += 1
    N = base["ticks"]
    bump("probes", "c08_scenarios")
    bump("probes", "c08_callbacks_total", N)
    results = [(clean, base)]
    if base["st"] != "skip":
        for k in range(N):
            r = copy.deepcopy(clean)
            r["fault"] = {"at": k}
            r["variant"] = "fault@%d" % k
            results.append((r, eval_variant(setup + [r], clean_final=base["final"] if base["st"] == "ok" else None)))
            evals += 1
        for r in natural_variants(rng, setup, clean):
            if base["st"] != "ok" or (r.get("val") or {}).get("k") in ("gen", "fgen"):
                # the rejection *type* is only fixed when incompatibility is the sole invalidity
                r.pop("expect", None)
            results.append((r, eval_variant(setup + [r])))
            evals += 1
    for r, res in results:
        hasher.update(json.dumps([r, res["st"], res["exc"], res["ticks"], res["fired"], res["final"], [v["clause"] for v in res["violations"]]],
                                 sort_keys=True, default=repr).encode())
        bump("ops", r["op"])
        bump("outcomes", res["st"])
        if res["exc"]:
            bump("exc", res["exc"])
        if res["fired"] is not None:
            bump("faults", "seq:" + res["fired"])
            if res["st"] == "ok":
                bump("probes", "c08_fault_swallowed")
        elif res["st"] == "exc" and r.get("variant", "").startswith("natural:"):
            bump("faults", r["variant"].split("@")[0])
        if r.get("variant", "").startswith("natural:") and res["st"] == "ok":
            bump("probes", "c08_natural_variant_accepted")
        if r.get("cls") == "wider" and res["st"] == "exc" and res["fired"] is not None:
            bump("probes", "c08_promotion_then_late_fault")
        if res["key"] is not None:
            states.add(hashlib.blake2b(repr(res["key"]).encode(), digest_size=8).hexdigest())
        if res["violations"] and not viols:
            viols = res["violations"]
            first_trace = setup + [r]
    return {"trace": first_trace if viols else setup + [clean], "digest": hasher.hexdigest(), "violations": viols,
            "stats": stats, "states": sorted(states), "steps": evals, "prng": s, "profile": "c08"}


def replay(check, trace):
    engine.prepare_process()
    if not trace:
        return {"trace": trace, "violations": [], "log": []}
    last = trace[-1]
    clean_final = None
    if isinstance(last.get("fault"), dict):
        c = copy.deepcopy(last)
        c.pop("fault")
        b = eval_variant(trace[:-1] + [c])
        if b["st"] == "ok":
            clean_final = b["final"]
    res = eval_variant(trace, clean_final=clean_final)
    log = ["%d %s" % (i, json.dumps(r, sort_keys=True)) for i, r in enumerate(trace)]
    log.append("-> %s%s ticks=%s fired=%s" % (res["st"], (":" + res["exc"]) if res["exc"] else "", res["ticks"], res["fired"]))
    return {"trace": trace, "violations": res["violations"], "log": log}
