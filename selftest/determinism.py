#!/venv/bin/python
"""Determinism self-test (large sample): for every check, the event-log digests of N run indices are
computed in fresh interpreters under different PYTHONHASHSEED values and worker counts and must be
identical (for C09/C12 the hash seed is the subject, so there only the worker count varies and the
case half of the digest must match across hash seeds).
usage: selftest/determinism.py [N] [check ...]"""
import os, subprocess, sys
ROOT = os.path.dirname(os.path.dirname(os.path.abspath(__file__)))
n = int(sys.argv[1]) if len(sys.argv) > 1 else 400
checks = sys.argv[2:] or ["C01", "C02", "C03", "C08", "C09", "C12", "C15", "C16", "C17", "C18"]
VERIF_SEED = os.environ.get("VERIF_SEED", "0")


def digests(check, hashseed, procs):
    env = dict(os.environ, PYTHONHASHSEED=str(hashseed), VERIF_REEXEC="1")
    p = subprocess.run(["/venv/bin/python", os.path.join(ROOT, "bin/check"), check, "--digests", "0-%d" % (n - 1),
                        "--seed", VERIF_SEED, "--procs", str(procs)], env=env, capture_output=True, text=True, timeout=7200)
    if p.returncode != 0:
        print(p.stdout[-2000:], p.stderr[-2000:])
        raise SystemExit(2)
    return {int(l.split()[1]): l.split()[2] for l in p.stdout.splitlines() if l.startswith("DIGEST ")}


bad = 0
for c in checks:
    subject = c in ("C09", "C12")
    confs = [(0, 16), (0, 3), (0 if subject else 777, 1 if n <= 200 else 5), (0 if subject else 31337, 16)]
    base = digests(c, *confs[0])
    for hs, pr in confs[1:]:
        other = digests(c, hs, pr)
        diff = [i for i in base if other.get(i) != base[i]]
        print("%s n=%d hashseed=%s procs=%d vs (0,16): %d mismatches %s" % (c, len(base), hs, pr, len(diff), diff[:5]))
        bad += len(diff)
    if subject:
        for hs in (1, 4242):
            other = digests(c, hs, 16)
            diff = [i for i in base if other.get(i, ":").split(":")[0] != base[i].split(":")[0]]
            rdiff = [i for i in base if other.get(i) != base[i]]
            print("%s n=%d hashseed=%s: generated cases differ in %d runs; results differ in %d runs" % (c, len(base), hs, len(diff), len(rdiff)))
            bad += len(diff)
sys.exit(1 if bad else 0)
