#!/bin/bash
# False-alarm self-test: changes that alter behaviour WITHOUT breaking any claimed property
# (another hash base, copy-on-write instead of refusal, converted stored values, another
# suffix scheme, empty joins keeping their columns, zero-row iteration working) must not raise
# an alarm in any check. usage: selftest/benign_check.sh [runs]
RUNS=${1:-4000}
cd /verif; bad=0
for p in selftest/benign/*.diff; do
  TMP=$(mktemp -d /tmp/benign.XXXXXX); cp -r /repo/src "$TMP/src"
  ( cd "$TMP" && git apply --unsafe-paths -p1 "/verif/$p" ) || { echo "$p DOES-NOT-APPLY"; bad=1; rm -rf "$TMP"; continue; }
  t=$(cd /repo && PYTHONPATH="$TMP/src" /venv/bin/python -m pytest -q -p no:cacheprovider -x 2>&1 | tail -1)
  line="$(basename $p): tests[$t]"
  for c in C01 C02 C03 C08 C09 C12 C15 C16 C17 C18; do
    out=$(SERIF_SRC="$TMP/src" bin/check $c --runs $RUNS --no-resample 2>&1); rc=$?
    if [ $rc -ne 0 ]; then line="$line $c=ALARM(rc=$rc: $(echo "$out" | grep -m1 -E '^violation|HARNESS' | cut -c1-200))"; bad=1; else line="$line $c=ok"; fi
  done
  echo "$line"; rm -rf "$TMP"
done
exit $bad
