#!/bin/bash
# Confirm every kept seeded change the way the brief prescribes: apply it to /repo itself
# (git -C /repo apply), run the property's quick check, undo it straight afterwards
# (git -C /repo checkout -- .). Refuses to run if /repo has uncommitted changes.
# usage: selftest/seeded_confirm.sh [runs] [name-substring]
RUNS=${1:-}; FILTER=${2:-}
cd /verif
if [ -n "$(git -C /repo status --porcelain)" ]; then echo "/repo is not clean"; exit 2; fi
bad=0
for d in seeded/*/; do
  n=$(basename "$d"); [ -n "$FILTER" ] && [[ "$n" != *"$FILTER"* ]] && continue
  prop=$(/venv/bin/python -c "import json;print(json.load(open('$d/meta.json'))['property'])")
  miss=$(/venv/bin/python -c "import json;print(json.load(open('$d/meta.json')).get('expected_miss',False))")
  git -C /repo apply "$PWD/$d/patch.diff" || { echo "$n DOES-NOT-APPLY"; bad=1; continue; }
  out=$(bin/check "$prop" --no-resample ${RUNS:+--runs $RUNS} 2>&1); rc=$?
  git -C /repo checkout -- .
  v=$(echo "$out" | grep -m1 '^violation' | cut -c1-150)
  if [ "$miss" = "True" ]; then echo "$n $prop rc=$rc (expected miss, documented) $v";
  elif [ $rc -eq 1 ]; then echo "$n $prop rc=1 CAUGHT $v";
  else echo "$n $prop rc=$rc MISSED"; bad=1; fi
done
[ -z "$(git -C /repo status --porcelain)" ] || { echo "/repo left dirty!"; exit 2; }
exit $bad
