#!/venv/bin/python
"""Sensitivity self-test: every patch under selftest/mutants/ and seeded/*/patch.diff is applied to a
scratch copy of /repo/src (outside /repo and /verif), the expected checks are run with SERIF_SRC
pointing at it and must exit 1 with a replayable VIOLATION; the scratch copy is deleted afterwards.
usage: selftest/sensitivity.py [--runs N] [name-substring ...]"""
import json, os, shutil, subprocess, sys, tempfile, glob
ROOT = os.path.dirname(os.path.dirname(os.path.abspath(__file__)))
runs = None
args = sys.argv[1:]
if args and args[0] == "--runs":
    runs = args[1]; args = args[2:]
jobs = []
EXPECTED_MISS = set()      # documented misses (meta.json: expected_miss + why_not_caught): reported, not counted
exp = json.load(open(os.path.join(ROOT, "selftest/mutants/EXPECT.json")))
for name, checks in sorted(exp.items()):
    jobs.append((name, os.path.join(ROOT, "selftest/mutants", name), checks))
for meta in sorted(glob.glob(os.path.join(ROOT, "seeded/*/meta.json"))):
    m = json.load(open(meta))
    jobs.append(("seeded/" + os.path.basename(os.path.dirname(meta)), os.path.join(os.path.dirname(meta), "patch.diff"), m.get("caught_by") or [m["property"]]))
    if m.get("expected_miss"):
        EXPECTED_MISS.add(jobs[-1][0])
bad = 0
for name, patch, checks in jobs:
    if args and not any(a in name for a in args):
        continue
    tmp = tempfile.mkdtemp(prefix="sens.", dir="/tmp")
    try:
        shutil.copytree("/repo/src", tmp + "/src")
        r = subprocess.run(["git", "apply", "--unsafe-paths", "-p1", patch], cwd=tmp, capture_output=True, text=True)
        if r.returncode != 0:
            r = subprocess.run("patch -s -p1 < %s" % patch, cwd=tmp, shell=True, capture_output=True, text=True)
        if r.returncode != 0:
            print("%-40s PATCH-DOES-NOT-APPLY" % name); bad += 1; continue
        for c in checks:
            env = dict(os.environ, SERIF_SRC=tmp + "/src")
            cmd = [os.path.join(ROOT, "bin/check"), c, "--no-resample"] + (["--runs", runs] if runs else [])
            p = subprocess.run(cmd, env=env, capture_output=True, text=True, cwd=ROOT, timeout=3600)
            v = [l for l in p.stdout.splitlines() if l.startswith("violation ")]
            ok = p.returncode == 1 and "VIOLATION property=" in p.stdout
            if name in EXPECTED_MISS:
                print("%-40s %s rc=%d %s %s" % (name, c, p.returncode, "(documented miss)" if not ok else "CAUGHT (documented as a miss)", (v[0][:160] if v else "")))
                continue
            print("%-40s %s rc=%d %s %s" % (name, c, p.returncode, "CAUGHT" if ok else "MISSED", (v[0][:160] if v else "")))
            if not ok:
                bad += 1
    finally:
        shutil.rmtree(tmp, ignore_errors=True)
sys.exit(1 if bad else 0)
