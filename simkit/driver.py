"""Main flow of a check invocation: batch, determinism resample, triage, minimise, replay, evidence."""
import json
import os
import subprocess
import sys
import time

from . import checks, findings, minimise, evidence
from .runner import run_many, fork_call, digests_in_fresh_interpreter

ROOT = os.path.dirname(os.path.dirname(os.path.abspath(__file__)))

COMPONENTS_REAL = ["src/serif/vector.py", "src/serif/table.py", "src/serif/alias_tracker.py", "src/serif/typing.py",
                   "src/serif/naming.py", "src/serif/display.py", "src/serif/typeutils.py", "src/serif/errors.py"]
COMPONENTS_STUB = ["builtin id() as seen by serif (virtual identity allocator; policy 'fresh' outside C15)",
                   "cyclic GC (disabled; explicit collect steps only)",
                   "caller-supplied sequences / iterators / name lists / apply callbacks (instrumented, fail on command)",
                   "PYTHONHASHSEED (pinned 0; swept for C09/C12)"]


def _replay_in_fresh_interpreter(script, prop, path):
    env = dict(os.environ)
    env["PYTHONHASHSEED"] = "0"
    env["VERIF_REEXEC"] = "1"
    p = subprocess.run([sys.executable, script, prop, "--replay", path], env=env, capture_output=True, text=True, timeout=600)
    return p.returncode, p.stdout


def do_replay(args, script):
    with open(args.replay) as f:
        doc = json.load(f)
    prop = doc["property"]
    if getattr(args, "digest_only", False):
        st, res = fork_call(checks.replay_trace, (prop, doc["trace"]))
        if st != "ok":
            print("HARNESS-ERROR replay failed: %s" % res)
            return 2
        print("CASE-DIGEST %s" % res["digest"])
        return 0
    if doc.get("hashseeds"):
        digs = {}
        for hs in doc["hashseeds"]:
            env = dict(os.environ)
            env["PYTHONHASHSEED"] = str(hs)
            env["VERIF_REEXEC"] = "1"
            p = subprocess.run([sys.executable, script, prop, "--replay", args.replay, "--digest-only"], env=env,
                               capture_output=True, text=True, timeout=600)
            for line in p.stdout.splitlines():
                if line.startswith("CASE-DIGEST "):
                    digs[hs] = line.split()[1]
        print("digests per PYTHONHASHSEED: %s" % digs)
        if len(digs) != len(doc["hashseeds"]):
            print("HARNESS-ERROR could not compute all digests")
            return 2
        if len(set(digs.values())) > 1:
            print("REPRODUCED %s: results differ between hash seeds" % doc["clause"])
            print("VIOLATION property=%s replay=%s" % (prop, os.path.abspath(args.replay)))
            return 1
        print("NOT-REPRODUCED property=%s clause=%s" % (prop, doc["clause"]))
        return 0
    st, res = fork_call(checks.replay_trace, (prop, doc["trace"]))
    if st != "ok":
        print("HARNESS-ERROR replay failed: %s" % res)
        return 2
    want = doc.get("clause")
    hit = [v for v in res["violations"] if want is None or v["clause"] == want]
    for line in res.get("log", []):
        print("  " + line)
    if hit:
        v = hit[0]
        print("REPRODUCED %s at step %s: %s" % (v["clause"], v["step"], v["detail"]))
        print("VIOLATION property=%s replay=%s" % (prop, os.path.abspath(args.replay)))
        return 1
    print("NOT-REPRODUCED property=%s clause=%s (violations seen: %s)" % (prop, want, [v["clause"] for v in res["violations"]]))
    return 0


def do_digests(args):
    idxs = []
    for part in args.digests.split(","):
        if "-" in part:
            a, b = part.split("-")
            idxs.extend(range(int(a), int(b) + 1))
        elif part:
            idxs.append(int(part))
    agg = run_many("simkit.checks", "run_index", args.prop, args.seed, idxs, procs=args.procs or 3, keep=0)
    if agg.errors:
        print("HARNESS-ERROR %s" % agg.errors[0]["error"])
        return 2
    for i, d in sorted(agg.digests.items()):
        print("DIGEST %d %s" % (i, d))
    return 0


def main(args, script):
    prop = args.prop
    if prop not in checks.CHECKS:
        print("HARNESS-ERROR unknown check %s" % prop)
        return 2
    if args.replay:
        return do_replay(args, script)
    if args.digests is not None:
        return do_digests(args)

    spec = checks.CHECKS[prop]
    tier = args.tier if args.tier in ("quick", "thorough") else "quick"
    n = args.runs or spec[tier]
    t0 = time.time()
    budget = args.budget_s or (None if tier == "quick" else 3300.0)
    if budget and spec.get("hashseeds"):
        budget = budget / 4.0        # the batch is executed under four hash seeds in turn
    deadline = (t0 + budget) if budget else None
    print("check=%s tier=%s VERIF_SEED=%d runs=%d src=%s" % (prop, tier, args.seed, n, os.environ.get("SERIF_SRC", "/repo/src")))
    sys.stdout.flush()
    agg = run_many("simkit.checks", "run_index", prop, args.seed, range(n), procs=args.procs, deadline=deadline)
    wall_runs = time.time() - t0

    if agg.errors:
        for e in agg.errors[:3]:
            print("HARNESS-ERROR run %s: %s" % (e["idx"], e["error"]))
        return 2

    # ---- determinism resample: ~2% of the runs again, fresh interpreter, other hash
    # seed (except where the hash seed is the subject), other worker count
    resample = {"n": 0, "mismatches": 0}
    if not args.no_resample and agg.runs:
        done = sorted(agg.digests)
        k = max(4, min(60, len(done) // 50))
        step = max(1, len(done) // k)
        sample = done[::step][:k]
        other = digests_in_fresh_interpreter(script, prop, args.seed, sample, 0 if spec.get("hashseeds") else 4242, 3)
        resample["n"] = len(sample)
        bad = [i for i in sample if other.get(i) != agg.digests[i]]
        resample["mismatches"] = len(bad)
        if bad:
            print("HARNESS-NONDETERMINISM run indices %s differ between executions" % bad[:5])
            return 2

    # ---- hash-seed sweep (C09 / C12): the whole workload again in fresh interpreters
    sweep = {}
    if spec.get("hashseeds") and agg.runs:
        done = sorted(agg.digests)
        spec_idx = "%d-%d" % (done[0], done[-1])
        for hs in (1, 4242, 1000 + args.seed % 100000):
            if deadline is not None and time.time() > deadline + 600:
                break
            other = digests_in_fresh_interpreter(script, prop, args.seed, [spec_idx], hs, args.procs or 16)
            sweep[hs] = len(other)
            for i in done:
                a, b = agg.digests[i], other.get(i)
                if b is None or a == b:
                    continue
                if a.split(":")[0] != b.split(":")[0]:
                    print("HARNESS-NONDETERMINISM run %d: the generated case itself differs under PYTHONHASHSEED=%d" % (i, hs))
                    return 2
                st, r = fork_call(checks.run_index, (prop, args.seed, i))
                if st != "ok":
                    print("HARNESS-ERROR %s" % r)
                    return 2
                r["idx"] = i
                r["violations"] = [{"property": prop, "clause": prop + "/seed-dependent", "step": 0,
                                    "detail": "result under PYTHONHASHSEED=0 differs from the result under PYTHONHASHSEED=%d" % hs,
                                    "sig": {"how": "seed-dependent"}}]
                r["hashseeds"] = [0, hs]
                agg.violating.append(r)

    # ---- triage
    known = findings.load()
    known_seen = {}
    unknown = {}
    for res in agg.violating:
        for v in res["violations"]:
            k = findings.match(v, known)
            if k is not None:
                known_seen.setdefault(k["id"], [k, 0])[1] += 1
            else:
                key = (v["clause"], minimise.sigkey(v))
                cur = unknown.get(key)
                if cur is None or len(res["trace"]) < len(cur[0]["trace"]):
                    unknown[key] = (res, v, (cur[2] + 1) if cur else 1)
                else:
                    unknown[key] = (cur[0], cur[1], cur[2] + 1)
    for kid, (k, cnt) in sorted(known_seen.items()):
        print("KNOWN-FINDING: property=%s %s [%s; seen in %d runs]" % (prop, k["text"], kid, cnt))

    reported = []
    nondet = False
    os.makedirs(os.path.join(ROOT, "replays"), exist_ok=True)
    for key, (res, v, cnt) in sorted(unknown.items(), key=lambda kv: -kv[1][2])[:4]:
        clause = v["clause"]
        if res.get("hashseeds"):
            path = os.path.join(ROOT, "replays", "%s-%d-%d.json" % (prop, args.seed, res["idx"]))
            with open(path, "w") as f:
                json.dump({"property": prop, "clause": clause, "detail": v["detail"], "sig": v.get("sig"),
                           "verif_seed": args.seed, "run_index": res["idx"], "hashseeds": res["hashseeds"],
                           "trace": res["trace"]}, f, indent=1)
            rc, out = _replay_in_fresh_interpreter(script, prop, path)
            if rc != 1:
                print("HARNESS-NONDETERMINISM seed-dependence of run %d did not reproduce (rc=%d)" % (res["idx"], rc))
                nondet = True
                continue
            print("violation %s: %s" % (clause, v["detail"]))
            print("VIOLATION property=%s replay=%s" % (prop, path))
            reported.append(path)
            continue
        # 1. the recorded trace must fail again
        st, again = fork_call(checks.replay_trace, (prop, res["trace"]))
        if st != "ok" or not any(x["clause"] == clause for x in again["violations"]):
            print("HARNESS-NONDETERMINISM recorded trace of run %d does not reproduce %s" % (res["idx"], clause))
            nondet = True
            continue
        # 2. minimise
        small, calls = minimise.minimise(checks.replay_trace, prop, res["trace"], clause, key[1])
        st, fin = fork_call(checks.replay_trace, (prop, small))
        fv = [x for x in fin["violations"] if x["clause"] == clause][0] if st == "ok" else v
        path = os.path.join(ROOT, "replays", "%s-%d-%d.json" % (prop, args.seed, res["idx"]))
        with open(path, "w") as f:
            json.dump({"property": prop, "clause": clause, "detail": fv["detail"], "sig": fv.get("sig"),
                       "verif_seed": args.seed, "run_index": res["idx"], "prng": res.get("prng"),
                       "profile": res.get("profile"), "trace": small, "original_trace": res["trace"],
                       "minimiser_executions": calls, "runs_with_this_signature": cnt}, f, indent=1)
        # 3. the minimised file must replay in a fresh interpreter
        rc, out = _replay_in_fresh_interpreter(script, prop, path)
        if rc != 1:
            print("HARNESS-NONDETERMINISM minimised replay %s did not reproduce (rc=%d)" % (path, rc))
            nondet = True
            continue
        print("violation %s (%d runs): %s" % (clause, cnt, fv["detail"]))
        print("  minimised to %d operations in %d executions" % (len(small), calls))
        print("VIOLATION property=%s replay=%s" % (prop, path))
        reported.append(path)

    wall = time.time() - t0
    write_evidence(prop, spec, tier, args.seed, agg, wall, wall_runs, resample, known_seen, len(unknown), sweep)
    print("runs=%d steps=%d distinct_states=%d wall=%.1fs runs/h=%.0f known=%d unknown=%d slowest_run=%dms(#%s)" % (
        agg.runs, agg.steps, len(agg.states), wall, agg.runs / max(wall_runs, 1e-9) * 3600, len(known_seen), len(unknown),
        agg.slowest[0], agg.slowest[1]))
    if nondet:
        return 2
    if reported:
        return 1
    return 0


RULES = {
    "c08": "a case is one executed variant (clean / fault@k for every call-back k / natural invalidity at every position) of a seeded base scenario "
           "(evaluations = variants executed, 'scenarios' = base scenarios); distinct_nontrivial counts distinct (operation, key form, value form, "
           "table value shape, variant kind, outcome, exception type, target kind, value class) tuples; per scenario the fault points are enumerated completely",
    "c09": "even run indices: one seeded join case (tables, key spec by name / column object / equal vector) compared with the nested-loop definition; "
           "odd run indices: a seeded history (tables, views, writes to key columns, inner joins) under identity reuse in which every inner_join result is "
           "compared with the definition over the operands' current contents; the whole index range is re-executed under 3 more PYTHONHASHSEED values and "
           "digests compared; distinct_nontrivial counts distinct case shapes (number/kinds of keys, result size bucket, duplicates, empty sides, None keys) "
           "plus the abstract situations of the history part",
    "c12": "even run indices: one seeded aggregate case (keys in / outside the table, built-ins, instrumented apply callbacks incl. in-place mutating ones and "
           "a planned failure) compared with group-by-hand, reductions with the single-group aggregate; odd run indices: seeded histories with writes to key / "
           "value columns and aggregates under identity reuse, every aggregate compared with group-by-hand over current contents; whole range re-executed "
           "under 3 more PYTHONHASHSEED values; distinct_nontrivial as for c09",
    "history": "seeded swarm histories over the public API (one PRNG per run from sha256(VERIF_SEED:check:run_index)); "
               "a case is one run; distinct_nontrivial counts distinct abstract situations reached by a non-skipped step: "
               "hash of (operation, key form, value form, sub-function, fault planned?, identity policy, outcome, exception type, "
               "abstractions of the objects the step involved = (class, dtype kind, nullable, length bucket, role, named?, derivation depth), "
               "number of live tables and of live column views, both capped at 3)",
}


def _abbrev(x, limit=40):
    """samples are for reading: very long value lists (1000-element vectors, 5000-row CSVs) are shortened"""
    if isinstance(x, list):
        if len(x) > limit:
            return [_abbrev(y, limit) for y in x[:10]] + ["... (%d more)" % (len(x) - 10)]
        return [_abbrev(y, limit) for y in x]
    if isinstance(x, dict):
        return {k: _abbrev(v, limit) for k, v in x.items()}
    return x


def write_evidence(prop, spec, tier, seed, agg, wall, wall_runs, resample, known_seen, n_unknown, sweep=None):
    sweep = sweep or {}
    st = {k: dict(v) for k, v in agg.stats.items()}
    cov = {
        "evaluations": agg.steps if spec["engine"] == "c08" else agg.runs,
        "distinct_nontrivial": len(agg.states),
        "rule": spec.get("rule") or RULES.get(spec["engine"], RULES["history"]),
        "samples": _abbrev(agg.samples[:3]) or [{"note": "no violation-free sample kept"}],
        "runs_per_hour": round(agg.runs / max(wall_runs, 1e-9) * 3600),
        "seeds": {"verif_seed": seed, "first_run_index": 0, "count": agg.runs},
        "scenarios": agg.runs,
        "slowest_run": {"wall_ms": agg.slowest[0], "run_index": agg.slowest[1], "limit_ms": 60000},
        "steps_total": agg.steps,
        "simulated_time": "logical steps only (%d); serif has no clock" % agg.steps,
        "faults_fired": st.get("faults", {}),
        "operations": st.get("ops", {}),
        "outcomes": st.get("outcomes", {}),
        "exception_types": st.get("exc", {}),
        "probes": st.get("probes", {}),
        "virtual_identity": st.get("vid", {}),
        "components_real": COMPONENTS_REAL,
        "components_stubbed": COMPONENTS_STUB,
        "determinism_resample": resample,
        "hashseed_sweep": {"seeds": [0] + sorted(sweep), "runs_per_seed": sweep},
        "known_findings_seen": {k: v[1] for k, v in known_seen.items()},
        "exhaustive": False,
    }
    evidence.write(prop, tier, seed, spec["level"], cov, wall, n_unknown,
                   ["CPython reference counting (virtual identity uses sys.getrefcount)",
                    "oracle and harness code in /verif", "clean batch = evidence, not proof (sampling)"])
