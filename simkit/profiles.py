"""Swarm weight tables per profile. Weights are relative; knobs tune the generator.

Per run, `swarm()` disables a random subset of operation kinds, jitters the rest and
draws the knobs, all from the run's PRNG - many short, diverse runs.
"""

BASE_READS = {"read": 6, "reduce": 1}

PROFILES = {
    # C01: derivation x write-form x later-observer
    "alias": {
        "weights": {
            "vec": 8, "tab_dict": 6, "tab_vecs": 6, "input_tuple": 2, "input_list": 1, "vec_of_input": 2, "vec_of_cols": 2,
            "input_vlist": 1.5, "tab_of_input": 3, "irshift": 1, "rowseal": 2, "rowopen": 2,
            "copy": 4, "deepcopy": 1, "getitem": 6, "row": 3, "tsel": 3, "t2d": 3, "rshift": 5, "lshift": 3, "T": 1,
            "binop": 3, "unop": 1, "cast": 1, "fillna": 1, "v0": 1, "sort": 3, "join": 3, "agg": 2, "method": 1,
            "view": 10, "set": 14, "tset": 8, "setattr": 6, "setname": 3, "alias": 1, "rencol": 2, "rencols": 1,
            "read": 5, "reduce": 1, "drop": 3, "repr_rows": 0.3,
        },
        "core": ["vec", "tab_dict", "view", "set"],
        "knobs": {"p_fault": [0.0, 0.05, 0.1], "p_natural": [0.0, 0.05, 0.1], "p_ragged": [0.0, 0.0, 0.05],
                  "p_col_from_vec": [0.0, 0.3], "max_objs": [6, 9, 12], "p_donor": [0.5, 0.8],
                  "names": [["a", "b", "c", "d", "x", "y"], ["a", "b", "c", "d", "x", "y"], ["a", "b", 2024, 7, "x", 2.5]]},
        "steps": (15, 60),
        # identity reuse is legal at any time; a cache keyed on id() only shows under it
        "vid": [[1, 0, 0], [1, 0, 0], [1, 2, 0], [1, 1, 2]],
    },
    # C02: rectangularity under construction / structural ops / failing inputs
    "shape": {
        "weights": {
            "vec": 8, "tab_dict": 8, "tab_vecs": 8, "tab_empty": 1, "copy": 2, "getitem": 6, "row": 2, "tsel": 3, "t2d": 4,
            "rshift": 8, "lshift": 8, "T": 9, "sort": 2, "join": 3, "agg": 1, "binop": 2, "irshift": 3,
            "view": 4, "set": 4, "tset": 8, "setattr": 8, "setname": 1, "rencol": 1, "rencols": 1,
            "read": 3, "drop": 3,
        },
        "core": ["vec", "tab_dict", "tab_vecs"],
        "knobs": {"p_fault": [0.0, 0.1, 0.2], "p_natural": [0.05, 0.1, 0.2], "p_ragged": [0.1, 0.2, 0.35],
                  "p_col_from_vec": [0.0, 0.3], "max_objs": [3, 6, 9], "p_empty": [0.05, 0.15], "p_dupname": [0.0, 0.15], "focus": [0.6, 0.85],
                  "kinds": [None, None, None, ["int", "str", "bytes"], ["bytes", "float"]]},
        "steps": (15, 50),
        "vid": [[1, 0, 0], [1, 0, 0], [1, 2, 0], [1, 1, 2]],
    },
    # C03: every vector-producing path, applied to products of earlier steps
    "dtype": {
        "weights": {
            "vec": 10, "vnew": 2, "csv": 3, "tab_dict": 5, "tab_vecs": 2, "copy": 2, "getitem": 4, "row": 5, "lshift": 6, "rshift": 2,
            "binop": 10, "unop": 6, "cast": 4, "fillna": 5, "v0": 5, "sort": 3, "join": 3, "agg": 3, "method": 3,
            "view": 4, "set": 12, "tset": 7, "setattr": 1, "read": 1, "drop": 3, "hammer": 1.5,
        },
        "core": ["vec", "set", "binop"],
        "knobs": {"p_natural": [0.0, 0.05], "p_wider": [0.15, 0.3], "p_incompat": [0.05, 0.1], "p_none_write": [0.1, 0.2],
                  "p_foreign": [0.0, 0.05], "max_objs": [6, 9],
                  # same-kind tables (matrix-like) now and then: a row of such a table is typed by the columns
                  "kinds": [None, None, ["int"], ["int", "float"], ["bool", "int"], ["date", "datetime"],
                            ["decimal", "int", "float"], ["fraction", "int"]]},
        "steps": (15, 50),
    },
    # C15: process-lifetime histories with adversarial identity reuse and deferred collection
    "lifetime": {
        "weights": {
            "vec": 12, "input_tuple": 5, "vec_of_input": 8, "vec_of_cols": 3, "drop_input": 2, "copy": 3, "getitem": 4, "binop": 2,
            "tab_dict": 3, "tab_vecs": 4, "rshift": 4, "lshift": 2, "t2d": 1, "view": 5, "setattr": 4, "deepcopy": 1,
            "writeback": 16, "set": 6, "tset": 5, "drop": 10, "park": 4, "collect": 3, "read": 1, "hammer": 0.5,
            "fillna": 2, "cast": 1, "v0": 2, "sort": 1, "tsel": 1,
        },
        "core": ["vec", "writeback", "drop"],
        "knobs": {"p_wider": [0.2, 0.4], "p_incompat": [0.0], "max_objs": [4, 7, 10], "p_empty": [0.0, 0.03, 0.1],
                  "p_none": [0.0, 0.1], "len": [(1, 3), (1, 5)]},
        "steps": (20, 80),
        "vid": [[1, 0, 0], [1, 2, 0], [1, 1, 3], [0, 1, 4]],
    },
    # C16: every write path interleaved with fingerprint reads
    "fingerprint": {
        "weights": {
            "vec": 8, "tab_dict": 8, "tab_vecs": 4, "copy": 2, "getitem": 2, "rshift": 3, "view": 10,
            "set": 14, "tset": 12, "setattr": 6, "setname": 1, "rencol": 1, "fp": 22, "read": 3, "binop": 1, "sort": 2,
            "fillna": 2, "cast": 1, "v0": 2, "lshift": 2, "tsel": 1, "t2d": 1, "join": 1, "hammer": 1,
            "drop": 2,
        },
        "core": ["vec", "tab_dict", "fp", "set", "tset", "view"],
        "knobs": {"p_fault": [0.0, 0.05], "p_natural": [0.0, 0.05], "p_wider": [0.1, 0.25], "max_objs": [4, 6, 9],
                  "rare": [0.0, 0.02, 0.15], "len": [(0, 6), (0, 6), (5, 12)], "max_cols": [4, 4, 12], "p_reenter": [0.0, 0.05, 0.15],
                  "kinds": [None, None, None, ["tcell", "int", "tcell", "str"]]},
        "steps": (15, 50),
        "vid": [[1, 0, 0], [1, 2, 0], [1, 1, 2], [0, 1, 3]],
    },
    # C18: derivation compositions over named / unnamed / repeated names
    "derive": {
        "weights": {
            "vec": 10, "tab_dict": 8, "tab_vecs": 8, "copy": 5, "getitem": 8, "tsel": 4, "t2d": 3, "rshift": 6, "lshift": 2,
            "binop": 10, "unop": 2, "sort": 6, "join": 6, "agg": 8, "view": 4, "set": 6, "tset": 2, "setattr": 2,
            "setname": 5, "alias": 2, "rencol": 3, "rencols": 2, "drop": 3, "read": 1,
        },
        "core": ["vec", "tab_dict", "binop", "agg", "join"],
        "knobs": {"p_unnamed": [0.2, 0.4], "p_dupname": [0.05, 0.25], "p_unnamed_col": [0.05, 0.2], "p_wider": [0.1, 0.2],
                  "max_objs": [6, 9], "names": [["a", "b", "c", "d", "x", "y"], ["a", "b", "A b", "x-y", "sum", "a"],
                            ["a", "b", "a_sum", "a_sum2", "a_count", "b_mean", "key", "key2", "col_sum"],
                            ["a", "A", "a b", "A b", "a_b", "x-y", "x y", "Total", "total"],
                            ["a", "fİyat", "ısı", "maſs", "Straße", "b", "é", "x"],
                            ["a", 2020, 2020.0, 1, True, "b", "x"]]},
        "steps": (15, 50),
    },
    # C09 / C12 history part: joins and aggregates inside histories that write to key columns,
    # under identity reuse (a result cached on id() of storage only goes stale here)
    "relhist": {
        "weights": {"tab_dict": 8, "view": 8, "set": 10, "tset": 8, "setattr": 3, "join": 12, "agg": 12, "copy": 1,
                    "getitem": 2, "drop": 2, "read": 1, "vec": 2},
        "core": ["tab_dict", "view", "set", "tset", "join", "agg"],
        "knobs": {"kinds": [["int", "str", "int", "bool", "float"], ["int", "str"]], "p_none": [0.0, 0.1], "len": [(2, 4), (2, 6)],
                  "max_cols": [2, 3], "max_objs": [4, 6], "p_wider": [0.0, 0.1], "p_incompat": [0.0], "rare": [0.0],
                  "p_foreign": [0.0], "join_kinds": [["inner_join"]], "agg_fns": [["aggregate"]], "p_empty": [0.0, 0.03], "p_collide": [0.15, 0.5],
                  "names": [["k", "g", "a", "b"], ["k", "v", "w"]]},
        "steps": (15, 45),
        "vid": [[1, 0, 0], [1, 2, 0], [1, 1, 2], [0, 1, 3]],
    },
    # C17: hostile names, renames through table and views, accessor probes in seeded order
    "names": {
        "weights": {"ntab": 8, "nadd": 3, "nprobe": 26, "nview": 8, "nsetname": 10, "nalias": 2, "nsetattr": 3,
                    "rencol": 8, "rencols": 4, "tsel": 2, "drop": 2, "copy": 1},
        "core": ["ntab", "nprobe", "nview", "nsetname", "rencol"],
        "knobs": {"max_objs": [4, 6, 8], "p_dupname": [0.0, 0.15, 0.35], "max_cols": [2, 4, 6], "p_werr": [0.0, 0.0, 0.08, 0.2],
                  "probe_w": [[3, 3, 2, 4, 3, 2], [1, 1, 1, 6, 4, 1], [4, 4, 2, 1, 1, 2]]},
        "steps": (12, 45),
    },
}


def swarm(rng, profile_name):
    p = PROFILES[profile_name]
    w = {}
    for k, v in p["weights"].items():
        if k not in p["core"] and rng.random() < 0.2:
            w[k] = 0
        else:
            w[k] = v * rng.uniform(0.5, 2.0)
    knobs = {}
    for k, choices in p["knobs"].items():
        knobs[k] = rng.choice(choices)
    lo, hi = p["steps"]
    steps = rng.randint(lo, hi)
    if rng.random() < (0.10 if profile_name == "relhist" else 0.03) and profile_name in (
            "alias", "shape", "dtype", "fingerprint", "derive", "lifetime", "relhist"):
        # a few runs cross the library's size-dependent branches (len > 1000): few objects, few steps
        u = rng.random()
        if profile_name == "relhist":
            u *= 0.56       # tables aggregated / joined repeatedly: 1001 rows mostly, 10001 sometimes
        knobs["len"] = (1001, 1003) if u < 0.45 else (10001, 10002) if u < 0.7 else (65537, 65539) if u < 0.85 else (70001, 70002)
        knobs["p_empty"] = 0.0
        if "p_wider" in p["knobs"] and profile_name != "relhist":
            knobs["p_wider"] = max(knobs.get("p_wider", 0.0), 0.4)      # size-dependent paths x promotion
        if rng.random() < 0.6 and profile_name != "relhist":
            # with any None rate at all a long vector is always nullable: the non-nullable side of a
            # size-dependent path would never be seen
            knobs["p_none"] = 0.0
        if rng.random() < 0.5:
            knobs["kinds"] = ["int", "date", "bool", "float", "int"]      # the promotable kinds
        if knobs.get("kinds") and "tcell" in knobs["kinds"]:
            knobs["kinds"] = None       # record cells stay with the short runs (cost of nested hashing x length)
        knobs["max_objs"] = 3
        steps = min(steps, 24 if profile_name == "relhist" else 14)
        if u >= 0.7:       # beyond 2**16 elements: a handful of steps on one or two objects
            knobs["max_objs"] = 2
            knobs["max_cols"] = 3
            steps = min(steps, 6)
            for k in ("hammer", "cast", "agg"):
                if k in w:
                    w[k] = 0
        for k in ("T", "join"):        # a transposed 1000-row table has 1000 columns: not what these runs are for
            if k in w:
                w[k] = 0
        if profile_name == "relhist":
            knobs["max_cols"] = 2
            knobs["kinds"] = ["int"]
            knobs["focus"] = 0.9
            knobs["p_collide"] = 0.7
    vid = None
    if p.get("vid"):
        vid = rng.choice(p["vid"])
        if vid == [1, 0, 0]:
            vid = None
    return w, knobs, steps, vid
