"""The simulated user program's variables: handles, roles, held inputs, zombies.

An *entry* is one (object, role) pair the program holds; several handle names may
point at one entry. Roles:
  ("owned",)            the program constructed or derived the object
  ("view", T_entry_id)  the program obtained it from live table T as a column
Snapshots are exact, hash-free descriptions of what the public API shows.
"""
from . import values as V

_serif = None


def serif():
    global _serif
    if _serif is None:
        import serif as s
        _serif = s
    return _serif


class SkipOp(Exception):
    """operation not applicable to the current world (dangling handle after
    minimisation, wrong kind): skipped, never an outcome"""


class HarnessError(Exception):
    pass


class Entry:
    __slots__ = ("eid", "obj", "role", "born", "depth", "names", "is_table", "tags")

    def __init__(self, eid, obj, role, born, depth, is_table):
        self.eid = eid
        self.obj = obj
        self.role = role
        self.born = born
        self.depth = depth
        self.names = []
        self.is_table = is_table
        self.tags = set()


class World:
    def __init__(self):
        self.handles = {}      # name -> Entry
        self.entries = {}      # eid -> Entry (insertion ordered)
        self.inputs = {}       # name -> plain python object held by the program
        self.zombies = []      # parked cycles
        self.sealed = {}       # name -> (Row the program holds but has not looked at yet, expected values)
        self._eid = 0
        self.created = 0

    # -- lookup -----------------------------------------------------------
    def get(self, name, kind=None):
        e = self.handles.get(name)
        if e is None:
            raise SkipOp("no handle %s" % name)
        if kind == "vec" and e.is_table:
            raise SkipOp("%s is a table" % name)
        if kind == "tab" and not e.is_table:
            raise SkipOp("%s is not a table" % name)
        return e

    def obj(self, name, kind=None):
        return self.get(name, kind).obj

    def live_entries(self):
        return list(self.entries.values())

    def tables(self):
        return [e for e in self.entries.values() if e.is_table]

    def vectors(self):
        return [e for e in self.entries.values() if not e.is_table]

    def name_of(self, e):
        return e.names[0] if e.names else None

    # -- binding ------------------------------------------------------------
    def bind(self, name, obj, role=("owned",), born="?", depth=0):
        """bind handle `name` to obj with the given role; an existing entry with the
        same object *and* role is reused (the world holds each (object, role) once)."""
        if name is None:
            return None
        S = serif()
        if not isinstance(obj, S.Vector):
            raise HarnessError("bind of non-serif object %r" % type(obj))
        if role[0] == "view":
            # the same column obtained twice from the same table is one (object, role) pair;
            # every *derivation or construction event* gets its own entry even if the library
            # handed back an object the program already holds (then the two are distinct
            # program values that must not observe each other's writes)
            for e in self.entries.values():
                if e.obj is obj and e.role == role:
                    self._name(name, e)
                    return e
        self._eid += 1
        e = Entry(self._eid, obj, role, born, depth, isinstance(obj, S.Table))
        self.entries[e.eid] = e
        self._name(name, e)
        self.created += 1
        return e

    def _name(self, name, e):
        old = self.handles.get(name)
        if old is not None and old is not e:
            self.unbind(name)
        self.handles[name] = e
        if name not in e.names:
            e.names.append(name)

    def unbind(self, name):
        e = self.handles.pop(name, None)
        if e is None:
            return None
        if name in e.names:
            e.names.remove(name)
        if not e.names:
            self.entries.pop(e.eid, None)
            return e
        return None

    # -- structure (ground truth, by identity, through public cols()) ---------
    def contains_col(self, tab_entry, obj):
        try:
            for c in tab_entry.obj.cols():
                if c is obj:
                    return True
        except Exception:
            return False
        return False

    def entitled(self, writer):
        """entries a successful write / rename through `writer` may change"""
        out = {writer.eid}
        if writer.is_table:
            for e in self.entries.values():
                if e.role[0] == "view" and e.role[1] == writer.eid and self.contains_col(writer, e.obj):
                    out.add(e.eid)
            # other handles of the same table object (same role -> same entry), none
        else:
            if writer.role[0] == "view":
                t = self.entries.get(writer.role[1])
                if t is not None and self.contains_col(t, writer.obj):
                    out.add(t.eid)
                    # sibling views of the same column object from the same table are
                    # the same entry; views of *other* columns are unaffected
        return out


# ----------------------------------------------------------------------------
# snapshots
# ----------------------------------------------------------------------------

def snap_vec(v, depth=0):
    S = serif()
    try:
        elems = []
        for e in v:
            if isinstance(e, S.Vector):
                # a non-table vector holding vectors (what a ragged stack produces, with a
                # warning) holds them by reference; whether that is "contents" is not fixed by
                # any property, so only the fact is recorded, not the nested state
                elems.append(("nested", type(e).__name__))
            else:
                elems.append(V.tv(e))
        sch = v.schema()
        if sch is None:
            schd = None
        else:
            schd = (getattr(sch.kind, "__name__", str(sch.kind)), bool(sch.nullable))
        return ("V", tuple(elems), V.tv(v.name), schd)
    except Exception as ex:   # a snapshot must be total
        return ("V-ERR", type(ex).__name__)


def snap_tab(t, depth=0):
    try:
        cols = t.cols()
        return ("T", tuple(V.tv(n) for n in t.column_names()),
                tuple(snap_any(c, depth + 1) for c in cols), len(t))
    except Exception as ex:
        return ("T-ERR", type(ex).__name__)


def snap_any(o, depth=0):
    S = serif()
    if isinstance(o, S.Table):
        return snap_tab(o, depth)
    return snap_vec(o, depth)


def snap_input(x):
    try:
        if isinstance(x, dict):
            return ("dict", tuple((V.tv(k), snap_input(v)) for k, v in x.items()))
        S = serif()
        if isinstance(x, S.Vector):
            return snap_any(x)
        if isinstance(x, (list, tuple)):
            return (type(x).__name__, tuple(snap_input(e) for e in x))
        return V.tv(x)
    except Exception as ex:
        return ("IN-ERR", type(ex).__name__)


def diff_path(a, b, path=""):
    """first position at which two snapshots differ (for reports)"""
    if a == b:
        return None
    if isinstance(a, tuple) and isinstance(b, tuple) and len(a) == len(b) and a and a[0] in ("V", "T") and a[0] == b[0]:
        labels = {"V": ["", "elements", "name", "schema", "values-by-name"], "T": ["", "column_names", "columns", "len"]}[a[0]]
        for i in range(1, len(a)):
            if a[i] != b[i]:
                if labels[i] in ("elements", "columns") and isinstance(a[i], tuple) and isinstance(b[i], tuple) and len(a[i]) == len(b[i]):
                    for j in range(len(a[i])):
                        if a[i][j] != b[i][j]:
                            sub = diff_path(a[i][j], b[i][j], "") if labels[i] == "columns" else None
                            return "%s%s[%d]%s" % (path, labels[i], j, ("." + sub) if sub else "")
                return path + labels[i]
    return path + "value"


def what_changed(a, b):
    """coarse classification of a snapshot difference: contents / name / dtype / shape"""
    p = diff_path(a, b) or ""
    if "values-by-name" in p:
        return "name-resolution"
    if "name" in p:
        return "name"
    if "schema" in p:
        return "dtype"
    if "len" in p:
        return "shape"
    return "contents"
