"""Virtual object identity: the simulator-owned stand-in for builtin id() as seen by serif.

Language contract for id(): unique among simultaneously existing objects, may be
reused once an object is dead. The allocator hands out *virtual* identities for
tuples (the storage serif's alias registry is keyed by) and the real id for
everything else. A tuple is logically dead when only the allocator itself still
references it (CPython would already have freed it); only then may its identity be
given to a new tuple, under the policy named by the trace:

  fresh  never reuse (all checks except C15: identity noise cannot leak in)
  lifo   reuse the most recently freed identity of a same-size tuple (what
         CPython's tuple free list does)
  adv    reuse a freed identity chosen by the trace, preferring one that still has
         an alias-registry entry

Every policy is legal under the contract, so a failure under any of them is a
failure of the real code.
"""
import sys

_real_id = id

VBASE = 1 << 62


class VidAllocator:
    def __init__(self):
        self.by_real = {}       # real id -> [tuple, vid]
        self.free = []          # [(vid, size)], most recently freed last
        self.next = VBASE
        self.policy = "fresh"
        self.pick = 0
        self.registry_keys = None   # callable -> iterable of keys with registry entries
        self.stats = {"alloc": 0, "reused": 0, "reused_with_entry": 0, "freed": 0}
        self._since = 0
        probe = [tuple([object()])]
        self._dead_rc = sys.getrefcount(probe[0])

    # -- plan for the current operation -------------------------------------
    def set_plan(self, policy, pick):
        self.policy = policy
        self.pick = pick

    # -- the id() replacement -------------------------------------------------
    def __call__(self, obj):
        if type(obj) is not tuple:
            return _real_id(obj)
        rid = _real_id(obj)
        ent = self.by_real.get(rid)
        if ent is not None:
            return ent[1]
        # release dead tuples before choosing an identity; with thousands of tracked tuples (a
        # transposed 1000-row table) a full sweep per allocation would be quadratic, so the sweep
        # is amortised then (and always done at the end of every step by the engine)
        self._since += 1
        if self._since * 8 >= len(self.by_real) or (self.policy != "fresh" and len(self.by_real) < 512):
            self.sweep()
        vid = self._choose(len(obj))
        self.by_real[rid] = [obj, vid]
        self.stats["alloc"] += 1
        return vid

    def _choose(self, size):
        if self.policy == "fresh" or not self.free:
            return self._fresh()
        if self.policy == "lifo":
            for k in range(len(self.free) - 1, -1, -1):
                if self.free[k][1] == size:
                    v = self.free.pop(k)[0]
                    self._count_reuse(v)
                    return v
            return self._fresh()
        # adversarial
        keys = set()
        if self.registry_keys is not None:
            try:
                keys = set(self.registry_keys())
            except Exception:
                keys = set()
        cands = [k for k in range(len(self.free)) if self.free[k][0] in keys]
        if not cands:
            cands = list(range(len(self.free)))
        k = cands[self.pick % len(cands)]
        self.pick += 1
        v = self.free.pop(k)[0]
        self._count_reuse(v, v in keys)
        return v

    def _count_reuse(self, v, with_entry=None):
        self.stats["reused"] += 1
        if with_entry is None and self.registry_keys is not None:
            try:
                with_entry = v in set(self.registry_keys())
            except Exception:
                with_entry = False
        if with_entry:
            self.stats["reused_with_entry"] += 1

    def _fresh(self):
        v = self.next
        self.next += 1
        return v

    # -- death ----------------------------------------------------------------
    def sweep(self):
        """release every logically dead tuple, to a fixpoint (a dead table tuple
        releases its columns, whose storage then dies too)."""
        self._since = 0
        dead_rc = self._dead_rc
        getrc = sys.getrefcount
        changed = True
        while changed:
            changed = False
            for rid in list(self.by_real):
                ent = self.by_real[rid]
                if getrc(ent[0]) <= dead_rc:
                    size = len(ent[0])
                    vid = ent[1]
                    del self.by_real[rid]
                    del ent[:]
                    self.free.append((vid, size))
                    self.stats["freed"] += 1
                    changed = True
        if len(self.free) > 48:
            del self.free[:len(self.free) - 48]

    def vid_of(self, tup):
        ent = self.by_real.get(_real_id(tup))
        return ent[1] if ent is not None else None


def install(alloc):
    """bind the module-global name `id` in serif's modules (module globals are
    resolved before builtins; no source change)."""
    import serif.vector
    import serif.table
    import serif.alias_tracker
    for mod in (serif.vector, serif.table, serif.alias_tracker):
        mod.id = alloc
    tracker = serif.alias_tracker._ALIAS_TRACKER
    reg = getattr(tracker, "_registry", None)
    if isinstance(reg, dict):
        alloc.registry_keys = lambda: list(reg.keys())
    return alloc
