"""Instrumented caller-supplied objects: the call-back seam.

Every protocol call the library makes into one of these objects ticks one shared
per-operation counter; when the counter reaches the ordinal named in the trace the
call raises InjectedFault instead of answering. Behaviour is otherwise that of the
plain list / tuple / function.
"""


class InjectedFault(Exception):
    """raised by the simulator inside a call-back; never by serif"""


class Ticker:
    __slots__ = ("n", "fault_at", "fired", "log", "reenter_at", "reenter_fn", "reentered")

    def __init__(self, fault_at=None):
        self.n = 0
        self.fault_at = fault_at
        self.fired = None      # kind of the protocol call that was failed
        self.log = []          # kinds of protocol calls seen (bounded)
        self.reenter_at = None
        self.reenter_fn = None
        self.reentered = False

    def tick(self, kind):
        k = self.n
        self.n += 1
        if self.reenter_at is not None and k == self.reenter_at and self.reenter_fn is not None:
            self.reentered = True
            self.reenter_fn()
        if len(self.log) < 64:
            self.log.append(kind)
        if self.fault_at is not None and k == self.fault_at:
            self.fired = kind
            raise InjectedFault("injected at call-back %d (%s)" % (k, kind))


class FIter:
    def __init__(self, seq, ticker):
        self._it = iter(seq)
        self._t = ticker

    def __iter__(self):
        return self

    def __next__(self):
        self._t.tick("next")
        return next(self._it)


class FSeq:
    """sequence-like (len / iter / getitem) that is neither list nor tuple"""

    def __init__(self, values, ticker):
        self._v = list(values)
        self._t = ticker

    def __len__(self):
        self._t.tick("len")
        return len(self._v)

    def __iter__(self):
        self._t.tick("iter")
        return FIter(self._v, self._t)

    def __getitem__(self, i):
        self._t.tick("getitem")
        return self._v[i]


class FList(list):
    """a real list subclass (passes isinstance(list)) with instrumented protocol"""

    def __init__(self, values, ticker):
        list.__init__(self, values)
        self._t = ticker

    def __len__(self):
        self._t.tick("len")
        return list.__len__(self)

    def __iter__(self):
        self._t.tick("iter")
        return FIter(list.__iter__(self), self._t)

    def __getitem__(self, i):
        self._t.tick("getitem")
        return list.__getitem__(self, i)


class FTuple(tuple):
    def __new__(cls, values, ticker):
        self = tuple.__new__(cls, values)
        self._t = ticker
        return self

    def __len__(self):
        self._t.tick("len")
        return tuple.__len__(self)

    def __iter__(self):
        self._t.tick("iter")
        return FIter(tuple.__iter__(self), self._t)

    def __getitem__(self, i):
        self._t.tick("getitem")
        return tuple.__getitem__(self, i)


def fgen(values, ticker):
    """a generator whose every step is a fault point"""
    for v in values:
        ticker.tick("next")
        yield v
    ticker.tick("stop")


class FFunc:
    """instrumented apply callback: records arguments, can fail at its k-th call"""

    def __init__(self, fn, ticker):
        self._fn = fn
        self._t = ticker
        self.calls = []

    def __call__(self, vals):
        self._t.tick("call")
        self.calls.append(list(vals))
        return self._fn(vals)


class FName:
    """instrumented column name: a name object whose comparison, hashing and str() are
    call-backs the library makes into caller code (each can fail)"""

    def __init__(self, s, ticker):
        self._s = s
        self._t = ticker

    def __eq__(self, other):
        self._t.tick("eq")
        return self._s == (other._s if isinstance(other, FName) else other)

    def __ne__(self, other):
        return not self.__eq__(other)

    def __hash__(self):
        self._t.tick("hash")
        return hash(self._s)

    def __str__(self):
        self._t.tick("str")
        return self._s

    def __repr__(self):          # used by the harness only; not a fault point
        return "FName(%r)" % (self._s,)


def make_seq(form, values, ticker):
    if form == "fseq":
        return FSeq(values, ticker)
    if form == "flist":
        return FList(values, ticker)
    if form == "ftuple":
        return FTuple(values, ticker)
    if form == "fgen":
        return fgen(values, ticker)
    raise ValueError(form)
