"""Seeded, online generation of operation records.

Every random decision is drawn here from the run's single PRNG and written into
the record; execution (ops.exec_op) is a pure interpreter of records. The
generator only *reads* the world through pure public calls (len, iteration,
schema(), column_names(), cols()) - never fingerprint(), dir(), getattr on a
table or anything else that warms a cache - so generating never perturbs the run.
"""
import re

from . import values as V
from .world import serif

SIMPLE = ["a", "b", "c", "d", "x", "y"]
_COLLIDE = {-1: -2, -2: -1, 0: V.M61, V.M61: 0}
_IDENT = re.compile(r"^[a-z][a-z0-9]*$")
_RESERVED = None


def reserved():
    global _RESERVED
    if _RESERVED is None:
        S = serif()
        _RESERVED = {n.lower() for n in dir(S.Vector)} | {n.lower() for n in dir(S.Table)}
    return _RESERVED


def simple_accessor(names, i):
    """accessor for column i when it is unambiguous without modelling the suffix
    scheme: a lower-case identifier, unique in the table, not a public attribute"""
    n = names[i]
    if not isinstance(n, str) or not _IDENT.match(n) or n in reserved():
        return None
    # unique after the documented sanitisation of every other stored name
    bases = [re.sub(r"[^a-z0-9_]+", "_", str(m).lower()).strip("_") for m in names if m is not None]
    if sum(1 for b in bases if b == n or b == "c" + n) != 1:
        return None
    if n.startswith("col") or "__" in n:
        return None
    return n


class Info:
    __slots__ = ("e", "name", "is_table", "n", "kind", "nullable", "vals", "ncols", "names", "colkinds", "weird", "view")

    def __init__(self, e):
        S = serif()
        self.e = e
        self.name = e.names[0]
        self.is_table = e.is_table
        self.view = e.role[0] == "view"
        self.weird = "row" in e.tags      # held Row objects only observe (reads, drop)
        o = e.obj
        try:
            if e.is_table:
                cols = o.cols()
                self.ncols = len(cols)
                self.n = len(o)
                self.names = list(o.column_names())
                self.colkinds = []
                for c in cols:
                    s = c.schema() if isinstance(c, S.Vector) and not isinstance(c, S.Table) else None
                    self.colkinds.append(getattr(s.kind, "__name__", None) if s is not None else None)
                    if isinstance(c, S.Table) or len(c) != self.n:
                        self.weird = True
                self.kind = None
                self.nullable = None
                self.vals = None
            else:
                self.vals = list(o)
                self.n = len(self.vals)
                s = o.schema()
                self.kind = getattr(s.kind, "__name__", None) if s is not None else None
                self.nullable = bool(s.nullable) if s is not None else None
                self.ncols = None
                self.names = None
                self.colkinds = None
                if any(isinstance(x, S.Vector) for x in self.vals):
                    self.weird = True
                if "row" in e.tags:
                    self.weird = True
        except Exception:
            self.weird = True
            self.n = 0
            self.kind = None
            self.vals = []
            self.ncols = 0
            self.names = []
            self.colkinds = []
            self.nullable = None


class Gen:
    def __init__(self, rng, weights, knobs):
        self.rng = rng
        self.w = dict(weights)
        self.k = dict(knobs)
        self.hn = 0
        self.inn = 0
        self.focus = []
        self.last_kind = None
        self.step = 0

    # ------------------------------------------------------------------
    def new_h(self):
        self.hn += 1
        return "h%d" % self.hn

    def new_inp(self):
        self.inn += 1
        return "i%d" % self.inn

    def touch(self, *names):
        for n in names:
            if n is None:
                continue
            if n in self.focus:
                self.focus.remove(n)
            self.focus.append(n)
        del self.focus[:-4]

    def infos(self, world):
        return [Info(e) for e in world.live_entries()]

    def pick(self, cands):
        """choose among Info candidates with a bias towards the focus set"""
        if not cands:
            return None
        r = self.rng
        if self.focus and r.random() < self.k.get("focus", 0.6):
            f = [c for c in cands if any(n in self.focus for n in c.e.names)]
            if f:
                return r.choice(f)
        return r.choice(cands)

    def chance(self, key, default=0.0):
        return self.rng.random() < self.k.get(key, default)

    # ------------------------------------------------------------------
    def next(self, world):
        self.step += 1
        r = self.rng
        infos = self.infos(world)
        maxo = self.k.get("max_objs", 9)
        if not infos:
            for kind in ("vec", "tab_dict"):
                if self.w.get(kind, 0) > 0:
                    rec = getattr(self, "g_" + kind)(world, infos)
                    if rec:
                        return rec
            return self.g_vec(world, infos)
        kinds = [k for k, w in self.w.items() if w > 0]
        ws = [self.w[k] for k in kinds]
        if len(infos) > maxo:
            # too many live objects: lifetime operations become likely
            for i, k in enumerate(kinds):
                if k in ("drop", "park"):
                    ws[i] = ws[i] * 8 + 5
        for _ in range(30):
            k = r.choices(kinds, ws)[0]
            fn = getattr(self, "g_" + k, None)
            if fn is None:
                continue
            try:
                rec = fn(world, infos)
            except TypeError:
                # a live object holds something the trace format cannot express (e.g. an
                # exotic element produced by earlier arithmetic): this operation kind is
                # not applicable now; deterministic, so replay is unaffected
                self.inapplicable = getattr(self, "inapplicable", 0) + 1
                rec = None
            if rec is not None:
                self.last_kind = k
                return rec
        return self.g_vec(world, infos)

    # ------------------------------------------------------------------
    # values
    # ------------------------------------------------------------------
    def rand_name(self, allow_none=True):
        r = self.rng
        pool = self.k.get("names", SIMPLE)
        if allow_none and r.random() < self.k.get("p_unnamed", 0.25):
            return None
        return r.choice(pool)

    def rand_len(self):
        r = self.rng
        lo, hi = self.k.get("len", (0, 6))
        if r.random() < self.k.get("p_empty", 0.05):
            return 0
        return r.randint(max(lo, 1), hi)

    def vals_of(self, kind, n, p_none=None, p_foreign=None):
        if p_none is None:
            p_none = self.k.get("p_none", 0.12) if self.rng.random() < 0.5 else 0.0
        if p_foreign is None:
            p_foreign = self.k.get("p_foreign", 0.02)
        return V.gen_values(self.rng, kind, n, p_none, p_foreign, self.k.get("rare", 0.03))

    def kind(self):
        return V.pick_kind(self.rng, self.k.get("kinds"))

    # ------------------------------------------------------------------
    # construction
    # ------------------------------------------------------------------
    def g_vec(self, world, infos):
        r = self.rng
        kind = self.kind()
        n = self.rand_len()
        rec = {"op": "vec", "out": self.new_h(), "vals": V.enc_list(self.vals_of(kind, n)),
               "form": r.choices(["list", "tuple", "gen"], [6, 3, 1])[0]}
        nm = self.rand_name()
        if nm is not None or r.random() < 0.2:
            rec["name"] = V.enc(nm)
        self.touch(rec["out"])
        return rec

    def g_input_tuple(self, world, infos):
        kind = self.kind()
        n = self.rand_len()
        return {"op": "input_tuple", "inp": self.new_inp(), "vals": V.enc_list(self.vals_of(kind, n))}

    def g_input_list(self, world, infos):
        kind = self.kind()
        n = self.rand_len()
        return {"op": "input_list", "inp": self.new_inp(), "vals": V.enc_list(self.vals_of(kind, n))}

    def g_vec_of_cols(self, world, infos):
        c = self.pick([i for i in infos if not i.is_table and not i.weird and i.n > 0])
        if not c:
            return None
        rec = {"op": "vec_of_cols", "out": self.new_h(), "h": c.name}
        self.touch(rec["out"], c.name)
        return rec

    def g_csv(self, world, infos):
        r = self.rng
        cells = ["", " ", "1", "2", "2.5", "abc", " 7 ", "1e3", "nan", "inf", "True", "-0", "0x1", "x y", "3"]
        ncols = r.randint(1, 3)
        nrows = r.randint(0, 4)
        big = r.random() < 0.04
        if big:
            nrows = r.choice([4097, 5000, 16385, 20000, 65537])      # beyond any plausible sniffing window
            ncols = 1
        header = r.random() < 0.8
        rows = [[r.choice(["a", "b", "c", "a b", ""]) for _ in range(ncols)]] if header else []
        colpool = [r.sample(cells, r.randint(1, 4)) for _ in range(ncols)]
        repeat = None
        if big:
            lead = r.choice(["1", "2.5", "abc"])
            repeat = [len(rows), [lead], nrows - 3]
            nrows = 3
        for _ in range(nrows):
            k = ncols if r.random() < 0.8 else r.randint(1, ncols)      # short records are padded
            rows.append([r.choice(colpool[j]) for j in range(k)])
        rec = {"op": "csv", "out": self.new_h(), "rows": rows, "header": header}
        if repeat:
            rec["repeat"] = repeat
        return rec

    def g_vnew(self, world, infos):
        r = self.rng
        d = None if r.random() < 0.3 else V.pick_value(r, self.kind(), 0.0)
        return {"op": "vnew", "out": self.new_h(), "default": V.enc(d), "n": r.choice([0, 1, 2, 3]), "typesafe": r.random() < 0.5}

    def g_input_vlist(self, world, infos):
        r = self.rng
        n = self.rand_len()
        k = r.randint(1, 3)
        return {"op": "input_vlist", "inp": self.new_inp(),
                "cols": [[V.enc(self.rand_name()), V.enc_list(self.vals_of(self.kind(), n))] for _ in range(k)]}

    def g_tab_of_input(self, world, infos):
        S = serif()
        names = [k for k in sorted(world.inputs) if isinstance(world.inputs[k], list) and world.inputs[k]
                 and all(isinstance(x, S.Vector) for x in world.inputs[k])]
        if not names:
            return None
        rec = {"op": "tab_of_input", "out": self.new_h(), "inp": self.rng.choice(names), "how": self.rng.choice(["Table", "Table", "Vector"])}
        self.touch(rec["out"])
        return rec

    def g_irshift(self, world, infos):
        rec = self.g_rshift(world, infos)
        if rec is None or rec.get("refl"):
            return None
        rec["op"] = "irshift"
        return rec

    def g_drop_input(self, world, infos):
        if not world.inputs:
            return None
        return {"op": "drop_input", "inp": self.rng.choice(sorted(world.inputs))}

    def g_vec_of_input(self, world, infos):
        if not world.inputs:
            return None
        r = self.rng
        rec = {"op": "vec_of_input", "out": self.new_h(), "inp": r.choice(sorted(world.inputs))}
        nm = self.rand_name()
        if nm is not None:
            rec["name"] = V.enc(nm)
        self.touch(rec["out"])
        return rec

    def col_names(self, ncols):
        r = self.rng
        pool = list(self.k.get("names", SIMPLE))
        names = []
        for _ in range(ncols):
            if names and r.random() < self.k.get("p_dupname", 0.08):
                names.append(r.choice(names))
            elif r.random() < self.k.get("p_unnamed_col", 0.05):
                names.append(None)
            else:
                names.append(r.choice(pool))
        return names

    def g_tab_dict(self, world, infos):
        r = self.rng
        ncols = r.randint(1, self.k.get("max_cols", 4))
        nrows = self.rand_len()
        pool = list(self.k.get("names", SIMPLE))
        r.shuffle(pool)
        names = pool[:ncols]
        while len(names) < ncols:          # wide tables: more columns than the name pool has names
            names.append("n%d" % len(names))
        ncols = len(names)
        ragged_at = None
        if self.chance("p_ragged", 0.0) and ncols >= 2:
            ragged_at = r.randrange(ncols)
        cols = []
        vecs = [i for i in infos if not i.is_table and not i.weird and i.n == nrows]
        for j, nm in enumerate(names):
            n = nrows
            if ragged_at == j:
                n = max(0, nrows + r.choice([-1, 1, 2]))
            if vecs and r.random() < self.k.get("p_col_from_vec", 0.0) and ragged_at != j:
                cols.append([V.enc(nm), {"k": "h", "h": r.choice(vecs).name}])
            else:
                form = r.choices(["list", "tuple"], [5, 1])[0]
                cols.append([V.enc(nm), {"k": form, "v": V.enc_list(self.vals_of(self.kind(), n))}])
        rec = {"op": "tab_dict", "out": self.new_h(), "cols": cols}
        if ragged_at is not None:
            rec["ragged"] = True
        self.touch(rec["out"])
        return rec

    def g_tab_vecs(self, world, infos):
        r = self.rng
        vecs = [i for i in infos if not i.is_table and not i.weird]
        if not vecs:
            return None
        base = self.pick(vecs)
        same = [i for i in vecs if i.n == base.n]
        k = r.randint(1, min(4, max(1, len(same) + 1)))
        chosen = [base] + [r.choice(same) for _ in range(k - 1)]
        rec = {"op": "tab_vecs", "out": self.new_h(), "hs": [c.name for c in chosen],
               "how": r.choices(["Table", "TableTuple", "Vector", "VectorTuple"], [4, 1, 3, 1])[0]}
        if self.chance("p_ragged", 0.0):
            other = [i for i in vecs if i.n != base.n]
            if other:
                rec["hs"].insert(r.randrange(len(rec["hs"]) + 1), r.choice(other).name)
                rec["ragged"] = True
        self.touch(rec["out"], *rec["hs"][:2])
        return rec

    def g_tab_empty(self, world, infos):
        return {"op": "tab_empty", "out": self.new_h(), "how": self.rng.choice(["dict", "tuple", "none"])}

    def g_deepcopy(self, world, infos):
        c = self.pick([i for i in infos if not i.weird])
        if not c:
            return None
        rec = {"op": "deepcopy", "out": self.new_h(), "h": c.name}
        self.touch(rec["out"], c.name)
        return rec

    # ------------------------------------------------------------------
    # derivations
    # ------------------------------------------------------------------
    def g_copy(self, world, infos):
        c = self.pick([i for i in infos if not i.weird])
        if not c:
            return None
        rec = {"op": "copy", "out": self.new_h(), "h": c.name}
        self.touch(rec["out"], c.name)
        return rec

    def rand_slice(self, n):
        r = self.rng
        t = r.random()
        if t < 0.5:
            a = r.randint(0, n)
            b = r.randint(a, n)
            return {"k": "slice", "a": a, "b": b, "s": None}
        if t < 0.65:
            return {"k": "slice", "a": None, "b": None, "s": None}
        if t < 0.8:
            return {"k": "slice", "a": r.choice([None, 0, 1]), "b": None, "s": r.choice([2, 3])}
        if t < 0.9:
            return {"k": "slice", "a": None, "b": None, "s": -1}
        return {"k": "slice", "a": r.randint(-n - 1, n + 1), "b": r.randint(-n - 1, n + 2), "s": r.choice([None, 1, -1, 2])}

    def rand_key(self, n, for_table=False):
        """(key spec, list of addressed positions) for a sequence of length n"""
        r = self.rng
        forms = ["int", "slice", "boollist", "boolvec", "intlist", "inttuple", "intvec"]
        wts = [5, 5, 3, 2, 2, 2, 2]
        if n == 0:
            forms, wts = ["slice", "boollist"], [3, 1]
        f = r.choices(forms, wts)[0]
        if f == "int":
            i = r.randrange(n)
            if r.random() < 0.3:
                return {"k": "int", "i": i - n}, [i]
            return {"k": "int", "i": i}, [i]
        if f == "slice":
            k = self.rand_slice(n)
            return k, list(range(n))[slice(k["a"], k["b"], k["s"])]
        if f in ("boollist", "boolvec"):
            m = [r.random() < 0.5 for _ in range(n)]
            if f == "boolvec" and n == 0:
                f = "boollist"
            return {"k": f, "v": m}, [i for i, b in enumerate(m) if b]
        cnt = r.randint(1, min(3, n))
        idx = [r.randrange(n) for _ in range(cnt)]
        enc = [i - n if r.random() < 0.2 else i for i in idx]
        return {"k": f, "v": enc}, idx

    def g_getitem(self, world, infos):
        r = self.rng
        c = self.pick([i for i in infos if not i.weird])
        if not c:
            return None
        if c.is_table:
            if c.ncols == 0:
                return None
            t = r.random()
            n = c.n
            if t < 0.45:
                key = self.rand_slice(n)
            elif t < 0.7:
                key = {"k": r.choice(["boollist", "boolvec"]) if n else "boollist", "v": [r.random() < 0.6 for _ in range(n)]}
                if n == 0:
                    return None
            elif t < 0.8 and n:
                key = {"k": "intvec", "v": [r.randrange(n) for _ in range(r.randint(1, 3))]}
            elif n:
                key = {"k": "int", "i": r.randrange(n)}
            else:
                return None
        else:
            if c.n == 0 and r.random() < 0.5:
                return None
            key, _ = self.rand_key(c.n)
        rec = {"op": "getitem", "out": self.new_h(), "h": c.name, "key": key}
        self.touch(rec["out"], c.name)
        return rec

    def g_row(self, world, infos):
        """t[i]: a Row the program keeps holding"""
        r = self.rng
        c = self.pick([i for i in infos if i.is_table and not i.weird and i.ncols > 0 and i.n > 0])
        if not c:
            return None
        i = r.randrange(c.n)
        rec = {"op": "getitem", "out": self.new_h(), "h": c.name, "key": {"k": "int", "i": i if r.random() < 0.8 else i - c.n}}
        self.touch(c.name)
        return rec

    def g_rowseal(self, world, infos):
        r = self.rng
        c = self.pick([i for i in infos if i.is_table and not i.weird and i.ncols > 0 and i.n > 0])
        if not c or len(world.sealed) >= 3:
            return None
        i = r.randrange(c.n)
        self._sealed_n = getattr(self, "_sealed_n", 0) + 1
        rec = {"op": "rowseal", "h": c.name, "i": i if r.random() < 0.8 else i - c.n, "name": "r%d" % self._sealed_n}
        self.touch(c.name)
        return rec

    def g_rowopen(self, world, infos):
        if not world.sealed:
            return None
        return {"op": "rowopen", "name": self.rng.choice(sorted(world.sealed)), "how": self.rng.choice(["iter", "iter", "index", "slice"])}

    def g_tsel(self, world, infos):
        r = self.rng
        c = self.pick([i for i in infos if i.is_table and not i.weird and i.ncols > 0])
        if not c:
            return None
        strs = [n for n in c.names if isinstance(n, str)]
        if not strs:
            return None
        k = r.randint(1, min(3, len(strs)))
        names = [r.choice(strs) for _ in range(k)]
        if len(names) == 1:
            names.append(r.choice(strs))
        rec = {"op": "getitem", "out": self.new_h(), "h": c.name, "key": {"k": "strs", "v": names}}
        self.touch(rec["out"], c.name)
        return rec

    def g_t2d(self, world, infos):
        r = self.rng
        c = self.pick([i for i in infos if i.is_table and not i.weird and i.ncols > 0 and i.n > 0])
        if not c:
            return None
        rows = self.rand_slice(c.n) if r.random() < 0.8 else {"k": "int", "i": r.randrange(c.n)}
        t = r.random()
        strs = [n for n in c.names if isinstance(n, str)]
        if t < 0.3:
            cols = {"k": "int", "i": r.randrange(c.ncols)}
        elif t < 0.6:
            cols = self.rand_slice(c.ncols)
        elif t < 0.8 and strs:
            cols = {"k": "str", "v": r.choice(strs)}
        elif strs:
            cols = {"k": "strs", "v": [r.choice(strs) for _ in range(r.randint(2, 3))]}
        else:
            cols = {"k": "int", "i": 0}
        rec = {"op": "t2d", "out": self.new_h(), "h": c.name, "rows": rows, "cols": cols}
        self.touch(rec["out"], c.name)
        return rec

    def g_rshift(self, world, infos):
        r = self.rng
        c = self.pick([i for i in infos if not i.weird])
        if not c:
            return None
        n = c.n
        bad = self.chance("p_ragged", 0.0)
        m = n if not bad else max(0, n + r.choice([-1, 1]))
        t = r.random()
        vecs = [i for i in infos if not i.is_table and not i.weird and i.n == m]
        tabs = [i for i in infos if i.is_table and not i.weird and i.n == m and i.ncols > 0]
        if t < 0.35 and vecs:
            other = {"k": "h", "h": r.choice(vecs).name}
        elif t < 0.5 and tabs and c.is_table:
            other = {"k": "h", "h": r.choice(tabs).name}
        elif t < 0.75 and c.is_table:
            items = []
            for nm in r.sample(list(self.k.get("names", SIMPLE)), r.randint(1, 2)):
                if vecs and r.random() < 0.5:
                    items.append([V.enc(nm), {"k": "h", "h": r.choice(vecs).name}])
                else:
                    items.append([V.enc(nm), {"k": "list", "v": V.enc_list(self.vals_of(self.kind(), m))}])
            other = {"k": "dict", "items": items}
        else:
            other = {"k": "list", "v": V.enc_list(self.vals_of(self.kind(), m, p_none=0.0))}
        rec = {"op": "rshift", "out": self.new_h(), "h": c.name, "other": other}
        if bad:
            rec["ragged"] = True
        self.touch(rec["out"], c.name, other.get("h"))
        return rec

    def g_lshift(self, world, infos):
        r = self.rng
        c = self.pick([i for i in infos if not i.weird])
        if not c:
            return None
        if c.is_table:
            if c.ncols == 0:
                return None
            bad = self.chance("p_ragged", 0.0)
            tabs = [i for i in infos if i.is_table and not i.weird and i.ncols == c.ncols]
            if tabs and r.random() < 0.3:
                other = {"k": "h", "h": r.choice(tabs).name}
            else:
                k = c.ncols if not bad else max(0, c.ncols + r.choice([-1, 1]))
                row = []
                for j in range(k):
                    kd = c.colkinds[j] if j < len(c.colkinds) and c.colkinds[j] in V.POOLS else self.kind()
                    row.append(V.pick_value(r, kd) if r.random() > 0.1 else None)
                other = {"k": "list", "v": V.enc_list(row)}
            rec = {"op": "lshift", "out": self.new_h(), "h": c.name, "other": other}
            if bad:
                rec["ragged"] = True
        else:
            t = r.random()
            kd = c.kind if c.kind in V.POOLS else self.kind()
            vecs = [i for i in infos if not i.is_table and not i.weird]
            if t < 0.3 and vecs:
                other = {"k": "h", "h": r.choice(vecs).name}
            elif t < 0.8:
                k2 = kd if r.random() < 0.7 else self.kind()
                other = {"k": r.choice(["list", "list", "tuple", "gen"]), "v": V.enc_list(self.vals_of(k2, r.randint(0, 3)))}
            else:
                other = {"k": "s", "v": V.enc(V.pick_value(r, kd))}
            rec = {"op": "lshift", "out": self.new_h(), "h": c.name, "other": other}
        self.touch(rec["out"], c.name, other.get("h"))
        return rec

    def g_T(self, world, infos):
        c = self.pick([i for i in infos if i.is_table and not i.weird])
        if not c:
            return None
        rec = {"op": "T", "out": self.new_h(), "h": c.name}
        self.touch(rec["out"], c.name)
        return rec

    def scalar_for(self, kind):
        r = self.rng
        if kind in ("int", "float", "bool", "complex"):
            k = r.choice(["int", "float", "int", "bool"]) if r.random() < 0.9 else "complex"
            v = V.pick_value(r, k, 0.0)
            return v
        if kind == "str":
            return r.choice(["a", "b", "_"])
        if kind in ("date", "datetime"):
            return r.choice([1, 7, V.D1])
        return r.choice([1, 2.5, "a"])

    def g_binop(self, world, infos):
        r = self.rng
        c = self.pick([i for i in infos if not i.weird])
        if not c:
            return None
        cmp_ = r.random() < 0.3
        fn = r.choice(["eq", "ne", "lt", "le", "gt", "ge"]) if cmp_ else r.choices(
            ["add", "sub", "mul", "truediv", "floordiv", "mod", "pow"], [6, 4, 4, 2, 1, 1, 1])[0]
        if fn == "pow":
            # exponentiation only with a small scalar exponent (big-int powers never finish);
            # reflected only when every base-side element is small
            rec = {"op": "binop", "out": self.new_h(), "h": c.name, "fn": "pow",
                   "other": {"k": "s", "v": V.enc(r.choice([0, 1, 2, 3, -1, 0.5, -2]))}}
            if not c.is_table and c.vals is not None and r.random() < 0.3 and all(
                    v is None or (isinstance(v, (int, float)) and not isinstance(v, bool) and abs(v) <= 16 and v == v) for v in c.vals):
                rec["refl"] = True
                rec["other"]["v"] = V.enc(r.choice([2, -2, 0.5, 3]))
            self.touch(rec["out"], c.name)
            return rec
        if c.is_table:
            tabs = [i for i in infos if i.is_table and not i.weird and i.ncols == c.ncols and i.n == c.n]
            if tabs and r.random() < 0.4:
                other = {"k": "h", "h": r.choice(tabs).name}
            else:
                other = {"k": "s", "v": V.enc(r.choice([1, 2, 0.5, 3]))}
            rec = {"op": "binop", "out": self.new_h(), "h": c.name, "fn": fn, "other": other}
        else:
            t = r.random()
            vecs = [i for i in infos if not i.is_table and not i.weird and i.n == c.n]
            if t < 0.35 and vecs:
                other = {"k": "h", "h": r.choice(vecs).name}
            elif t < 0.5:
                kd = c.kind if c.kind in V.POOLS else "int"
                other = {"k": "list", "v": V.enc_list(self.vals_of(kd, c.n))}
            else:
                other = {"k": "s", "v": V.enc(self.scalar_for(c.kind))}
            rec = {"op": "binop", "out": self.new_h(), "h": c.name, "fn": fn, "other": other}
            if other["k"] != "h" and r.random() < 0.35:
                rec["refl"] = True
        self.touch(rec["out"], c.name, other.get("h"))
        return rec

    def g_unop(self, world, infos):
        c = self.pick([i for i in infos if not i.weird and not i.is_table])
        if not c:
            return None
        rec = {"op": "unop", "out": self.new_h(), "h": c.name,
               "fn": self.rng.choices(["neg", "pos", "abs", "invert"], [4, 2, 3, 2])[0]}
        self.touch(rec["out"], c.name)
        return rec

    def g_cast(self, world, infos):
        c = self.pick([i for i in infos if not i.weird and not i.is_table])
        if not c:
            return None
        to = self.rng.choice(["int", "float", "str", "bool", "complex", "object", "date", "datetime", "fn_lookup", "fn_half"])
        rec = {"op": "cast", "out": self.new_h(), "h": c.name, "to": to}
        self.touch(rec["out"], c.name)
        return rec

    def g_fillna(self, world, infos):
        r = self.rng
        c = self.pick([i for i in infos if not i.weird and not i.is_table])
        if not c:
            return None
        kd = c.kind if c.kind in V.POOLS else self.kind()
        t = r.random()
        if t < 0.65:
            v = V.pick_value(r, kd, 0.0)
        elif t < 0.8 and kd in V.WIDER:
            v = V.pick_value(r, r.choice(V.WIDER[kd]), 0.0)
        elif t < 0.9:
            v = None
        else:
            v = V.pick_value(r, self.kind(), 0.0)
        rec = {"op": "fillna", "out": self.new_h(), "h": c.name, "v": V.enc(v)}
        self.touch(rec["out"], c.name)
        return rec

    def g_v0(self, world, infos):
        c = self.pick([i for i in infos if not i.weird and not i.is_table])
        if not c:
            return None
        rec = {"op": "v0", "out": self.new_h(), "h": c.name,
               "fn": self.rng.choice(["dropna", "isna", "unique", "to_object"])}
        self.touch(rec["out"], c.name)
        return rec

    def g_method(self, world, infos):
        r = self.rng
        c = self.pick([i for i in infos if not i.weird and not i.is_table and i.kind in ("str", "date", "int", "float", "datetime", "bool")])
        if not c:
            return None
        if c.kind == "str":
            name, args, prop = r.choice([("upper", [], False), ("strip", [], False), ("replace", ["a", "b"], False),
                                        ("startswith", ["a"], False), ("zfill", [3], False), ("before", ["a"], False)])
        elif c.kind in ("date", "datetime"):
            name, args, prop = r.choice([("year", [], True), ("month", [], True), ("isoformat", [], False),
                                        ("weekday", [], False), ("eomonth", [], False)])
        elif c.kind == "int":
            name, args, prop = r.choice([("bit_length", [], False), ("real", [], True), ("bit_lshift", [2], False), ("bit_rshift", [1], False)])
        elif c.kind == "bool":
            name, args, prop = r.choice([("bit_lshift", [3], False), ("bit_rshift", [1], False), ("real", [], True)])
        else:
            name, args, prop = r.choice([("is_integer", [], False), ("real", [], True)])
        rec = {"op": "method", "out": self.new_h(), "h": c.name, "name": name, "args": V.enc_list(args)}
        if prop:
            rec["prop"] = True
        self.touch(rec["out"], c.name)
        return rec

    def colspec(self, c, j, infos, allow_vec=True):
        """refer to column j of table Info c by name, or by an equal vector"""
        r = self.rng
        nm = c.names[j]
        if isinstance(nm, str) and r.random() < 0.7:
            return {"k": "str", "v": nm}
        col = list(c.e.obj.cols()[j])
        try:
            if r.random() < 0.5 or not (nm is None or isinstance(nm, str)):
                return {"k": "col", "j": j}
            return {"k": "vec", "v": V.enc_list(col), "name": V.enc(nm)}
        except TypeError:
            return {"k": "col", "j": j}

    def g_sort(self, world, infos):
        r = self.rng
        c = self.pick([i for i in infos if not i.weird])
        if not c:
            return None
        if c.is_table:
            if c.ncols == 0:
                return None
            k = r.randint(1, min(2, c.ncols))
            js = [r.randrange(c.ncols) for _ in range(k)]
            rec = {"op": "sort", "out": self.new_h(), "h": c.name, "by": [self.colspec(c, j, infos) for j in js],
                   "reverse": r.random() < 0.3, "na_last": r.random() < 0.8, "single": r.random() < 0.5}
        else:
            rec = {"op": "sort", "out": self.new_h(), "h": c.name, "reverse": r.random() < 0.3, "na_last": r.random() < 0.8}
        self.touch(rec["out"], c.name)
        return rec

    def g_join(self, world, infos):
        r = self.rng
        # joins of joins multiply rows: only small operands
        tabs = [i for i in infos if i.is_table and not i.weird and 0 < i.ncols <= 8 and i.n <= 12]
        if not tabs:
            return None
        l = self.pick(tabs)
        rt = r.choice(tabs)
        pairs = [(a, b) for a in range(l.ncols) for b in range(rt.ncols)
                 if l.colkinds[a] == rt.colkinds[b] and l.colkinds[a] in ("int", "str", "bool", "date")]
        if not pairs:
            return None
        k = 1 if r.random() < 0.8 else 2
        chosen = [r.choice(pairs) for _ in range(k)]
        rec = {"op": "join", "out": self.new_h(), "h": l.name, "other": rt.name,
               "kind": r.choice(self.k.get("join_kinds", ["inner_join", "join", "full_join"])),
               "lon": [self.colspec(l, a, infos) for a, _ in chosen],
               "ron": [self.colspec(rt, b, infos) for _, b in chosen],
               "expect": r.choices(["many_to_many", "many_to_one", "one_to_one"], [6, 1, 1])[0],
               "single": r.random() < 0.5}
        self.touch(rec["out"], l.name, rt.name)
        return rec

    def g_agg(self, world, infos):
        r = self.rng
        c = self.pick([i for i in infos if i.is_table and not i.weird and i.ncols > 0])
        if not c:
            return None
        keyable = [j for j in range(c.ncols) if c.colkinds[j] in ("int", "str", "bool", "date")]
        num = [j for j in range(c.ncols) if c.colkinds[j] in ("int", "float", "complex", "bool")]
        if not keyable:
            return None
        rec = {"op": "agg", "out": self.new_h(), "h": c.name, "fn": r.choice(self.k.get("agg_fns", ["aggregate", "window"])),
               "over": [self.colspec(c, r.choice(keyable), infos) for _ in range(1 if r.random() < 0.8 else 2)],
               "single": r.random() < 0.5}
        if num:
            for k in r.sample(["sum_over", "mean_over", "min_over", "max_over", "stdev_over", "count_over"], r.randint(1, 3)):
                rec[k] = [self.colspec(c, r.choice(num), infos) for _ in range(r.choice([1, 1, 1, 2, 3]))]
        else:
            rec["count_over"] = [self.colspec(c, r.randrange(c.ncols), infos)]
        if num and r.random() < 0.04:
            # one aggregate asked for the same column a dozen times: a dozen outputs with one base name
            k = r.choice(["sum_over", "count_over", "max_over"])
            rec[k] = [self.colspec(c, r.choice(num), infos)] * r.randint(11, 13)
            rec[k] = [dict(x) for x in rec[k]]
        if r.random() < 0.3:
            names = ["n", "first", "a", "a_sum", "a_sum2", "b_count2", "key", "key2", "col_sum2"]
            rec["apply"] = [{"name": nm, "col": self.colspec(c, r.randrange(c.ncols), infos),
                             "f": r.choice(["len", "first", "nn", "last", "rev"])}
                            for nm in r.sample(names, r.choice([1, 1, 2]))]
            if len(rec["apply"]) == 2 and r.random() < 0.6:
                rec["apply"][1]["col"] = rec["apply"][0]["col"]      # two callbacks over one column
            if self.chance("p_fault", 0.0):
                rec["fault"] = {"at": r.randint(0, 3)}
        self.touch(rec["out"], c.name)
        return rec

    def g_reduce(self, world, infos):
        c = self.pick([i for i in infos if not i.weird])
        if not c:
            return None
        return {"op": "reduce", "h": c.name, "fn": self.rng.choice(["sum", "mean", "min", "max", "stdev", "any", "all"])}

    # ------------------------------------------------------------------
    # views
    # ------------------------------------------------------------------
    def g_view(self, world, infos):
        r = self.rng
        c = self.pick([i for i in infos if i.is_table and not i.weird and i.ncols > 0])
        if not c:
            return None
        j = r.randrange(c.ncols)
        how = r.choices(["cols", "colsi", "str", "attr"], [3, 1, 3, 3])[0]
        rec = {"op": "view", "out": self.new_h(), "t": c.name, "how": how, "i": j}
        if how == "str":
            nm = c.names[j]
            if not isinstance(nm, str) or c.names.index(nm) != j:
                rec["how"] = "cols"
            else:
                rec["key"] = nm
        elif how == "attr":
            acc = simple_accessor(c.names, j)
            if acc is None:
                rec["how"] = "cols"
            else:
                rec["key"] = acc
        self.touch(rec["out"], c.name)
        return rec

    # ------------------------------------------------------------------
    # in-place
    # ------------------------------------------------------------------
    def write_values(self, kind, m, nullable):
        """values for m addressed positions of a column of that kind, with the value
        class drawn from same / None / wider / narrower / incompatible"""
        r = self.rng
        kd = kind if kind in V.POOLS else self.kind()
        if kind == "tuple" and "tcell" in (self.k.get("kinds") or []):
            kd = "tcell"
        t = r.random()
        pw = self.k.get("p_wider", 0.12)
        pi = self.k.get("p_incompat", 0.06)
        pn = self.k.get("p_none_write", 0.1)
        cls = "same"
        if t < pn:
            cls = "none"
        elif t < pn + pw and kd in V.WIDER:
            cls = "wider"
        elif t < pn + pw + pi:
            cls = "incompat"
        elif t < pn + pw + pi + 0.08 and kd in V.NARROWER:
            cls = "narrower"
        elif kd in V.SUB_OF_KIND and self.k.get("p_subclass", 0.0) and r.random() < self.k["p_subclass"]:
            cls = "subclass"
        vals = [V.pick_value(r, kd, self.k.get("rare", 0.02)) for _ in range(m)]
        if m:
            p = r.randrange(m)
            if cls == "none":
                vals[p] = None
            elif cls == "wider":
                vals[p] = V.pick_value(r, r.choice(V.WIDER[kd]), 0.0)
            elif cls == "incompat":
                vals[p] = V.pick_value(r, r.choice(V.INCOMPAT.get(kd, ["str"])), 0.0)
            elif cls == "narrower":
                vals[p] = V.pick_value(r, r.choice(V.NARROWER[kd]), 0.0)
            elif cls == "subclass":
                # an instance of a strict subclass of the column's own kind (IntEnum member, str subclass):
                # whether it is accepted is not stated; that the assignment is all-or-nothing is
                vals[p] = V.SUB_OF_KIND[kd](V.pick_value(r, kd, 0.0))
            # "promote early, fail late": a second special value at another position
            if m >= 2 and cls in ("wider", "none") and r.random() < self.k.get("p_second_special", 0.3):
                q = r.choice([i for i in range(m) if i != p])
                t2 = r.random()
                if t2 < 0.5:
                    vals[q] = V.pick_value(r, r.choice(V.INCOMPAT.get(kd, ["str"])), 0.0)
                    cls = cls + "+incompat"
                elif t2 < 0.75 and kd in V.WIDER:
                    vals[q] = V.pick_value(r, r.choice(V.WIDER[kd]), 0.0)
                    cls = cls + "+wider"
                else:
                    vals[q] = None
                    cls = cls + "+none"
        return vals, cls

    def value_spec(self, vals, scalar_ok=True):
        r = self.rng
        if scalar_ok and (len(vals) == 1 or (vals and all(V.same_value(v, vals[0]) for v in vals))) and r.random() < 0.6:
            return {"k": "s", "v": V.enc(vals[0])}
        form = r.choices(["list", "tuple", "vec", "gen"], [6, 2, 2, 1])[0]
        return {"k": form, "v": V.enc_list(vals)}

    def faulty(self, rec, valspec, m):
        """possibly turn a value spec into an instrumented one with a planned fault"""
        r = self.rng
        if not self.chance("p_fault", 0.0):
            return
        if valspec["k"] in ("list", "tuple", "vec", "gen"):
            valspec["k"] = r.choice(["fseq", "flist", "ftuple", "fgen"])
            rec["fault"] = {"at": r.randint(0, 2 * m + 3)}

    def g_set(self, world, infos):
        r = self.rng
        c = self.pick([i for i in infos if not i.is_table and not i.weird])
        if not c:
            return None
        if c.n == 0 and r.random() < 0.7:
            return None
        key, pos = self.rand_key(c.n)
        if c.kind == "bool" and c.n and not c.nullable and r.random() < 0.12:
            key, pos = {"k": "h", "h": c.name}, [i for i, b in enumerate(c.vals) if b]       # flags[flags] = ...
        elif c.kind == "int" and c.n and not c.nullable and r.random() < 0.06 and all(type(x) is int and -c.n <= x < c.n for x in c.vals):
            key, pos = {"k": "h", "h": c.name}, [x % c.n for x in c.vals]                     # perm[perm] = ...
        m = len(pos)
        vals, cls = self.write_values(c.kind, m, c.nullable)
        scalar_ok = True
        if m == 0:
            vals = []
        spec = self.value_spec(vals) if vals else {"k": "list", "v": []}
        if c.kind == "float" and vals and r.random() < 0.6:
            # an infinity is overwritten by the other one now and then (unequal, and hash() tells them apart)
            for q, p in enumerate(pos[:len(vals)]):
                old = c.vals[p] if p < len(c.vals) else None
                if isinstance(old, float) and old in (float("inf"), float("-inf")):
                    vals[q] = -old
        if c.kind == "int" and vals and r.random() < self.k.get("p_collide", 0.15):
            # replace a value by one Python's hash() cannot tell from it (-1/-2, 0/2**61-1): the edit
            # a cache validated by hashes or fingerprints does not notice
            for q, p in enumerate(pos[:len(vals)]):
                old = c.vals[p] if p < len(c.vals) else None
                if type(old) is int and old in _COLLIDE:
                    vals[q] = _COLLIDE[old]
        donors = [i for i in infos if not i.is_table and not i.weird and i.n == m and i.name != c.name and i.kind == c.kind]
        if donors and m > 0 and r.random() < 0.12:
            spec = {"k": "h", "h": r.choice(donors).name}       # the value is a vector the program keeps holding
        if key["k"] == "int":
            # one position takes a scalar; a sequence there would be stored as an element
            spec = {"k": "s", "v": V.enc(vals[0])}
        rec = {"op": "set", "h": c.name, "key": key, "val": spec, "cls": cls}
        # natural invalidities
        if self.chance("p_natural", 0.0):
            t = r.random()
            if key["k"] == "h":
                pass
            elif t < 0.35 and key["k"] in ("int", "intlist", "inttuple", "intvec"):
                bad = r.choice([c.n, c.n + 1, -c.n - 1])
                if key["k"] == "int":
                    key["i"] = bad
                else:
                    key["v"][r.randrange(len(key["v"]))] = bad
                rec["nat"] = "index"
            elif t < 0.7 and spec["k"] not in ("s", "h"):
                if r.random() < 0.5 and spec["v"]:
                    spec["v"].pop()
                else:
                    spec["v"].append(spec["v"][0] if spec["v"] else 1)
                rec["nat"] = "length"
            elif key["k"] in ("boollist", "boolvec"):
                key["v"].append(True)
                rec["nat"] = "masklen"
        self.faulty(rec, spec, m)
        if "fault" not in rec and spec["k"] in ("list", "tuple") and m >= 1 and self.chance("p_reenter", 0.0):
            spec["k"] = r.choice(["fseq", "flist", "ftuple"])
            rec["reenter"] = r.randint(0, 2 * m + 2)
        self.touch(c.name)
        return rec

    def g_hammer(self, world, infos):
        r = self.rng
        c = self.pick([i for i in infos if not i.is_table and not i.weird and 0 < i.n <= 12 and i.kind in V.POOLS])
        if not c:
            return None
        vals = [V.pick_value(r, c.kind, 0.0) for _ in range(r.randint(2, 5))]
        if r.random() < 0.6:
            vals[r.randrange(len(vals))] = None
        rec = {"op": "hammer", "h": c.name, "k": r.choice([127, 128, 129, 130, 200, 257]), "start": r.randrange(c.n),
               "vals": V.enc_list(vals)}
        self.touch(c.name)
        return rec

    def g_writeback(self, world, infos):
        c = self.pick([i for i in infos if not i.is_table and not i.weird])
        if not c:
            return None
        rec = {"op": "writeback", "h": c.name, "i": self.rng.randrange(max(1, c.n))}
        self.touch(c.name)
        return rec

    def g_tset(self, world, infos):
        r = self.rng
        c = self.pick([i for i in infos if i.is_table and not i.weird and i.ncols > 0 and i.n > 0])
        if not c:
            return None
        n, nc = c.n, c.ncols
        # rows
        if r.random() < 0.45:
            ri = r.randrange(n)
            rows = {"k": "int", "i": ri if r.random() < 0.8 else ri - n}
            rpos = [ri]
        else:
            rows = self.rand_slice(n)
            rpos = list(range(n))[slice(rows["a"], rows["b"], rows["s"])]
        # cols
        t = r.random()
        if t < 0.2:
            cols = None
            cpos = list(range(nc))
        elif t < 0.45:
            j = r.randrange(nc)
            cols = {"k": "int", "i": j}
            cpos = [j]
        elif t < 0.65:
            cols = self.rand_slice(nc)
            cpos = list(range(nc))[slice(cols["a"], cols["b"], cols["s"])]
        elif t < 0.85:
            j = r.randrange(nc)
            acc = simple_accessor(c.names, j)
            if acc is None:
                cols = {"k": "int", "i": j}
            else:
                cols = {"k": "str", "v": acc}
            cpos = [j]
        else:
            k = r.randint(1, min(3, nc))
            cpos = [r.randrange(nc) for _ in range(k)]
            mixed = []
            for j in cpos:
                acc = simple_accessor(c.names, j)
                mixed.append(acc if (acc is not None and r.random() < 0.5) else j)
            cols = {"k": "mixed", "v": mixed}
        if not cpos:
            return None
        tcols = c.e.obj.cols()
        colvals = []
        cls_all = []
        for j in cpos:
            vals, cls = self.write_values(c.colkinds[j], len(rpos), None)
            if c.colkinds[j] == "int" and r.random() < self.k.get("p_collide", 0.15):
                try:
                    oldcol = list(tcols[j])
                    for q, p in enumerate(rpos[:len(vals)]):
                        if type(oldcol[p]) is int and oldcol[p] in _COLLIDE:
                            vals[q] = _COLLIDE[oldcol[p]]
                except Exception:
                    pass
            colvals.append(vals)
            cls_all.append(cls)
        t = r.random()
        single_row = rows["k"] == "int"
        if t < 0.3:
            # scalar broadcast
            # one scalar for every addressed cell, drawn from the same value classes as any other
            # write (same / None / wider / narrower / incompatible) relative to the first column
            sv, scls = self.write_values(c.colkinds[cpos[0]], 1, None)
            val = {"k": "s", "v": V.enc(sv[0])}
            cls_all = [scls]
            shape = "scalar"
        elif single_row:
            val = {"k": r.choice(["list", "tuple", "gen"]), "v": V.enc_list([cv[0] for cv in colvals])}
            shape = "row"
        elif len(cpos) == 1 and r.random() < 0.6:
            val = {"k": r.choice(["list", "tuple"]), "v": V.enc_list(colvals[0])}
            shape = "column"
        elif r.random() < 0.3:
            val = {"k": "tab", "cols": [[V.enc(c.names[j] if isinstance(c.names[j], str) else None), V.enc_list(cv)] for j, cv in zip(cpos, colvals)]}
            shape = "table"
        else:
            inner = [{"k": r.choice(["list", "tuple", "vec"]), "v": V.enc_list(cv)} for cv in colvals]
            val = {"k": "lol", "v": inner, "outer": r.choice(["list", "tuple"])}
            shape = "region"
        rec = {"op": "tset", "t": c.name, "rows": rows, "cols": cols, "val": val, "shape": shape}
        if self.chance("p_natural", 0.0):
            if shape in ("row", "column") and val["v"]:
                if r.random() < 0.5:
                    val["v"].pop()
                else:
                    val["v"].append(val["v"][0])
                rec["nat"] = "length"
            elif shape == "region":
                tgt = val["v"][-1]
                if tgt["v"]:
                    tgt["v"].pop()
                    rec["nat"] = "length"
        if self.chance("p_fault", 0.0):
            if shape in ("row", "column"):
                val["k"] = r.choice(["fseq", "flist", "ftuple", "fgen"])
                rec["fault"] = {"at": r.randint(0, 2 * len(val["v"]) + 3)}
            elif shape == "region":
                for x in val["v"]:
                    x["k"] = r.choice(["fseq", "flist", "ftuple", "list"] if len(val["v"]) > 1 else ["flist", "ftuple", "list"])
                if r.random() < 0.5:
                    val["outer"] = r.choice(["flist", "ftuple"])
                rec["fault"] = {"at": r.randint(0, 6 * len(cpos) + 4)}
        self.touch(c.name)
        return rec

    def g_setattr(self, world, infos):
        r = self.rng
        c = self.pick([i for i in infos if i.is_table and not i.weird and i.ncols > 0])
        if not c:
            return None
        j = r.randrange(c.ncols)
        acc = simple_accessor(c.names, j)
        nm = c.names[j]
        if isinstance(nm, str) and _IDENT.match(nm) and nm not in reserved() and "__" not in nm and not nm.startswith("col") \
                and (acc is None or r.random() < 0.3):
            acc = "%s__%d" % (nm, j)      # indexed accessor form: name__<column index>
        if acc is None:
            return None
        bad = self.chance("p_ragged", 0.0)
        m = c.n if not bad else max(0, c.n + r.choice([-1, 1]))
        vecs = [i for i in infos if not i.is_table and not i.weird and i.n == m]
        held = [k for k in sorted(world.inputs) if isinstance(world.inputs[k], (list, tuple)) and len(world.inputs[k]) == m]
        if bad and 1 <= c.n <= 12 and r.random() < 0.3:
            # a list of len(table) vectors whose own length differs: its outer length looks right
            inner = max(1, c.n + r.choice([-1, 1, 2]))
            val = {"k": "lov", "v": [V.enc_list(self.vals_of("int", inner, p_none=0.0)) for _ in range(c.n)]}
        elif held and r.random() < 0.35:
            val = {"k": "inp", "inp": r.choice(held)}       # a plain list / tuple the program keeps holding
        elif vecs and r.random() < self.k.get("p_donor", 0.6):
            d = self.pick(vecs)
            val = {"k": "h", "h": d.name}
        else:
            val = {"k": r.choice(["list", "tuple", "vec"]), "v": V.enc_list(self.vals_of(self.kind(), m))}
        rec = {"op": "setattr", "t": c.name, "acc": acc, "val": val, "i": j}
        if bad:
            rec["ragged"] = True
        self.touch(c.name, val.get("h"))
        return rec

    def g_setname(self, world, infos):
        c = self.pick([i for i in infos if not i.weird and not i.is_table])
        if not c:
            return None
        rec = {"op": "setname", "h": c.name, "name": V.enc(self.rand_name())}
        self.touch(c.name)
        return rec

    def g_alias(self, world, infos):
        c = self.pick([i for i in infos if not i.weird and not i.is_table])
        if not c:
            return None
        return {"op": "alias", "h": c.name, "name": V.enc(self.rand_name(False))}

    def g_rencol(self, world, infos):
        r = self.rng
        c = self.pick([i for i in infos if i.is_table and not i.weird and i.ncols > 0])
        if not c:
            return None
        plain = [n for n in c.names if n is None or isinstance(n, str)]
        old = r.choice(plain) if (plain and r.random() < 0.9) else "nope"
        rec = {"op": "rencol", "t": c.name, "old": V.enc(old), "new": V.enc(self.rand_name(False))}
        self.touch(c.name)
        return rec

    def g_rencols(self, world, infos):
        r = self.rng
        c = self.pick([i for i in infos if i.is_table and not i.weird and i.ncols > 0])
        if not c:
            return None
        k = r.randint(1, min(3, c.ncols))
        plain = [n for n in c.names if n is None or isinstance(n, str)] or ["nope"]
        olds = [r.choice(plain) for _ in range(k)]
        news = [self.rand_name(False) for _ in range(k)]
        if r.random() < 0.15:
            olds[r.randrange(k)] = "nope"
        if r.random() < 0.1:
            news.append("zz")
        rec = {"op": "rencols", "t": c.name, "olds": {"k": "list", "v": V.enc_list(olds)},
               "news": {"k": r.choice(["list", "tuple"]), "v": V.enc_list(news)}}
        if self.chance("p_fault", 0.0):
            rec["olds"]["k"] = r.choice(["fseq", "flist", "ftuple"])
            rec["news"]["k"] = r.choice(["fseq", "flist", "ftuple", "list"])
            rec["fault"] = {"at": r.randint(0, 4 * k + 6)}
        self.touch(c.name)
        return rec

    # ------------------------------------------------------------------
    # reads
    # ------------------------------------------------------------------
    def g_read(self, world, infos):
        r = self.rng
        c = self.pick(infos)
        if not c:
            return None
        if c.is_table:
            what = r.choices(["repr", "fp", "schema", "len", "shape", "dir", "colnames", "peek", "iter"],
                             self.k.get("read_w_tab", [2, 3, 1, 1, 1, 1, 1, 1, 2]))[0]
        else:
            what = r.choices(["repr", "fp", "schema", "len", "shape", "str"],
                             self.k.get("read_w_vec", [2, 3, 1, 1, 1, 1]))[0]
        self.touch(c.name)
        return {"op": "read", "h": c.name, "what": what}

    def g_fp(self, world, infos):
        c = self.pick(infos)
        if not c:
            return None
        self.touch(c.name)
        return {"op": "read", "h": c.name, "what": "fp"}

    # ------------------------------------------------------------------
    # lifetime
    # ------------------------------------------------------------------
    def g_drop(self, world, infos):
        if not infos:
            return None
        c = self.rng.choice(infos)
        return {"op": "drop", "h": self.rng.choice(c.e.names)}

    def g_park(self, world, infos):
        if not infos:
            return None
        c = self.rng.choice(infos)
        return {"op": "park", "h": c.name}

    def g_collect(self, world, infos):
        return {"op": "collect"}

    def g_repr_rows(self, world, infos):
        return {"op": "repr_rows", "n": self.rng.choice([0, 1, 2, 12])}
