"""Registry of checks: which profiles, which oracles, how many runs per tier."""
import random

from . import engine
from .gen import Gen
from .profiles import swarm


def _oracles(check):
    if check == "C01":
        from oracles.c01 import C01
        return [C01()]
    if check == "C02":
        from oracles.c02 import C02
        return [C02()]
    if check == "C03":
        from oracles.c03 import C03
        return [C03()]
    if check == "C15":
        from oracles.c15 import C15
        return [C15()]
    if check == "C16":
        from oracles.c16 import C16
        return [C16()]
    if check == "C17":
        from oracles.c17 import C17
        return [C17()]
    if check == "C18":
        from oracles.c18 import C18
        return [C18()]
    raise KeyError(check)


CHECKS = {
    "C01": {"engine": "history", "profiles": ["alias"], "quick": 12000, "thorough": 400000, "level": "exploration"},
    "C02": {"engine": "history", "profiles": ["shape"], "quick": 10000, "thorough": 400000, "level": "exploration"},
    "C03": {"engine": "history", "profiles": ["dtype", "alias", "shape", "fingerprint", "derive", "lifetime"],
            "quick": 10000, "thorough": 400000, "level": "exploration"},
    "C15": {"engine": "history", "profiles": ["lifetime"], "quick": 6000, "thorough": 300000, "level": "exploration"},
    "C16": {"engine": "history", "profiles": ["fingerprint"], "quick": 12000, "thorough": 400000, "level": "exploration"},
    "C17": {"engine": "history", "profiles": ["names"], "gen": "names", "quick": 10000, "thorough": 400000, "level": "exploration"},
    "C18": {"engine": "history", "profiles": ["derive"], "quick": 10000, "thorough": 400000, "level": "exploration"},
    "C08": {"engine": "c08", "quick": 8000, "thorough": 300000, "level": "fault_enumeration"},
    "C09": {"engine": "c09", "hashseeds": True, "quick": 5000, "thorough": 150000, "level": "exploration"},
    "C12": {"engine": "c12", "hashseeds": True, "quick": 5000, "thorough": 150000, "level": "exploration"},
}


def run_index(check, seed, idx):
    """generate-and-execute run `idx` of `check` (called inside a forked child)"""
    spec = CHECKS[check]
    eng = spec["engine"]
    if eng in ("c09", "c12") and idx % 2 == 1:
        # history part: the relation inside seeded histories that write to the operands
        import hashlib, json
        s = engine.seed_for(check, seed, idx)
        rng = random.Random(s)
        w, knobs, steps, vid = swarm(rng, "relhist")
        if eng == "c09":
            from oracles.c09 import C09H as H
            w["agg"] = 0
        else:
            from oracles.c12 import C12H as H
            w["join"] = 0
            knobs["p_fault"] = rng.choice([0.0, 0.3])
        res = engine.run([H()], gen=Gen(rng, w, knobs), rng=rng, max_steps=steps, vid_knobs=vid)
        res["profile"] = "relhist"
        res["prng"] = s
        res["digest"] = hashlib.sha256(json.dumps(res["trace"], sort_keys=True).encode()).hexdigest()[:16] + ":" + res["digest"][:32]
        return res
    if eng == "history":
        s = engine.seed_for(check, seed, idx)
        rng = random.Random(s)
        profile = spec["profiles"][idx % len(spec["profiles"])]
        w, knobs, steps, vid = swarm(rng, profile)
        if check == "C15" and idx % 10 == 0 and knobs.get("len", (0, 6))[1] < 100:
            steps = rng.randint(300, 1200)      # process-lifetime runs (never combined with 1000-element vectors)
        if spec.get("gen") == "names":
            from oracles.c17 import NamesGen
            gen = NamesGen(rng, w, knobs)
        else:
            gen = Gen(rng, w, knobs)
        res = engine.run(_oracles(check), gen=gen, rng=rng, max_steps=steps, vid_knobs=vid)
        res["profile"] = profile
        res["prng"] = s
        return res
    if eng == "c08":
        from oracles import c08
        return c08.run_index(check, seed, idx)
    if eng == "c09":
        from oracles import c09
        return c09.run_index(check, seed, idx)
    if eng == "c12":
        from oracles import c12
        return c12.run_index(check, seed, idx)
    raise KeyError(eng)


def replay_trace(check, trace):
    """re-execute a stored trace (called inside a forked child or a fresh interpreter)"""
    spec = CHECKS[check]
    eng = spec["engine"]
    if eng == "history":
        return engine.run(_oracles(check), trace=trace, keep_log=True)
    if eng == "c08":
        from oracles import c08
        return c08.replay(check, trace)
    if eng in ("c09", "c12") and trace and trace[0].get("op") != "case":
        if eng == "c09":
            from oracles.c09 import C09H as H
        else:
            from oracles.c12 import C12H as H
        return engine.run([H()], trace=trace, keep_log=True)
    if eng == "c09":
        from oracles import c09
        return c09.replay(check, trace)
    if eng == "c12":
        from oracles import c12
        return c12.replay(check, trace)
    raise KeyError(eng)
