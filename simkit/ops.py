"""Deterministic interpreter of operation records (public serif API only).

exec_op(world, rec, ctx) performs one record. It never draws randomness, never
reads a clock, never keeps an exception object. Outcome dict:
  {"st": "ok"|"exc"|"skip", "exc": <type name>, "injected": bool, "res": <handle or None>,
   "writer": <eid written through>, "kind": <"write"|"rename"|"derive"|"read"|"life"|"construct">}
"""
import copy as _copy
import gc
import operator
import warnings
import datetime as _dt

from . import values as V
from .faults import Ticker, InjectedFault, make_seq, FFunc, FName
from .world import SkipOp, HarnessError, serif

OPS = {}
KIND = {}


def op(name, kind):
    def deco(fn):
        OPS[name] = fn
        KIND[name] = kind
        return fn
    return deco


class Ctx:
    """per-operation context"""
    __slots__ = ("ticker", "writer", "extra", "result_scalar", "ffuncs")

    def __init__(self, fault_at=None):
        self.ticker = Ticker(fault_at)
        self.writer = None
        self.extra = {}
        self.result_scalar = None
        self.ffuncs = []


# ----------------------------------------------------------------------------
# argument decoding
# ----------------------------------------------------------------------------

def mk_key(world, k, ctx):
    S = serif()
    t = k["k"]
    if t == "int":
        return k["i"]
    if t == "slice":
        return slice(k.get("a"), k.get("b"), k.get("s"))
    if t in ("boollist", "intlist"):
        return list(k["v"])
    if t == "inttuple":
        return tuple(k["v"])
    if t in ("boolvec", "intvec"):
        return S.Vector(list(k["v"]))
    if t == "h":
        return world.obj(k["h"])
    if t in ("fseq", "flist", "ftuple"):
        return make_seq(t, list(k["v"]), ctx.ticker)
    if t == "str":
        return k["v"]
    if t == "strs":
        return tuple(k["v"])
    if t == "mixed":   # list of names / ints for table column specs
        return list(k["v"])
    if t == "none":
        return None
    raise HarnessError("bad key spec %r" % (k,))


def mk_val(world, v, ctx):
    S = serif()
    t = v["k"]
    if t == "s":
        return V.dec(v["v"])
    if t == "list":
        return V.dec_list(v["v"])
    if t == "tuple":
        return tuple(V.dec_list(v["v"]))
    if t == "vec":
        if v.get("declared"):
            # a Vector whose dtype the caller declared (taken on trust by the constructor): its
            # elements may go beyond it; assigning it is assigning those elements
            return S.Vector(V.dec_list(v["v"]), dtype={"int": int, "float": float, "str": str, "bool": bool}[v["declared"]])
        return S.Vector(V.dec_list(v["v"]), name=V.dec(v.get("name")))
    if t == "h":
        return world.obj(v["h"])
    if t in ("fseq", "flist", "ftuple", "fgen"):
        return make_seq(t, V.dec_list(v["v"]), ctx.ticker)
    if t == "gen":
        return (x for x in V.dec_list(v["v"]))
    if t == "lol":
        inner = [mk_val(world, x, ctx) for x in v["v"]]
        if v.get("outer") in ("flist", "ftuple", "fseq"):
            return make_seq(v["outer"], inner, ctx.ticker)
        if v.get("outer") == "tuple":
            return tuple(inner)
        return inner
    if t == "lov":      # a list of Vectors
        return [S.Vector(V.dec_list(x)) for x in v["v"]]
    if t == "dict":
        return {V.dec(n): mk_val(world, x, ctx) for n, x in v["items"]}
    if t == "tab":
        return S.Table([S.Vector(V.dec_list(vals), name=V.dec(n)) for n, vals in v["cols"]])
    if t == "inp":
        if v["inp"] not in world.inputs:
            raise SkipOp("no input")
        return world.inputs[v["inp"]]
    raise HarnessError("bad value spec %r" % (v,))


def _is_serif(x):
    return isinstance(x, serif().Vector)


def _bind_result(world, rec, res, born, depth=0, role=("owned",)):
    if _is_serif(res) and type(res).__name__ != "Row":
        return world.bind(rec.get("out"), res, role=role, born=born, depth=depth)
    return None


def _depth(world, *names):
    d = 0
    for n in names:
        e = world.handles.get(n)
        if e is not None:
            d = max(d, e.depth)
    return d + 1


# ----------------------------------------------------------------------------
# construction
# ----------------------------------------------------------------------------

@op("vec", "construct")
def _vec(world, rec, ctx):
    S = serif()
    vals = V.dec_list(rec["vals"])
    form = rec.get("form", "list")
    if form == "list":
        src = vals
    elif form == "tuple":
        src = tuple(vals)
    elif form == "gen":
        src = (x for x in vals)
    else:
        src = make_seq(form, vals, ctx.ticker)
    kw = {}
    if "name" in rec:
        kw["name"] = V.dec(rec["name"])
    res = S.Vector(src, **kw)
    return _bind_result(world, rec, res, "vec")


@op("input_tuple", "life")
def _input_tuple(world, rec, ctx):
    world.inputs[rec["inp"]] = tuple(V.dec_list(rec["vals"]))


@op("input_list", "life")
def _input_list(world, rec, ctx):
    world.inputs[rec["inp"]] = V.dec_list(rec["vals"])


@op("input_vlist", "life")
def _input_vlist(world, rec, ctx):
    """the program keeps a plain list of vectors (and no other reference to them)"""
    S = serif()
    world.inputs[rec["inp"]] = [S.Vector(V.dec_list(vals), name=V.dec(nm)) for nm, vals in rec["cols"]]


@op("tab_of_input", "construct")
def _tab_of_input(world, rec, ctx):
    S = serif()
    src = world.inputs.get(rec["inp"])
    if not isinstance(src, list) or not src or not all(isinstance(x, S.Vector) for x in src):
        raise SkipOp("no vector list")
    res = S.Table(src) if rec.get("how", "Table") == "Table" else S.Vector(src)
    return _bind_result(world, rec, res, "tab_of_input")


@op("drop_input", "life")
def _drop_input(world, rec, ctx):
    world.inputs.pop(rec["inp"], None)


@op("vec_of_input", "construct")
def _vec_of_input(world, rec, ctx):
    S = serif()
    if rec["inp"] not in world.inputs:
        raise SkipOp("no input")
    kw = {}
    if "name" in rec:
        kw["name"] = V.dec(rec["name"])
    res = S.Vector(world.inputs[rec["inp"]], **kw)
    e = _bind_result(world, rec, res, "vec_of_input")
    if e is not None:
        e.tags.add("inp:" + rec["inp"])
    return e


@op("vec_of_cols", "construct")
def _vec_of_cols(world, rec, ctx):
    """Vector(v.cols()): cols() of a plain vector hands out its storage tuple, so the program can
    (knowingly or not) build a second vector over it"""
    S = serif()
    src = world.get(rec["h"], "vec")
    res = S.Vector(src.obj.cols())
    e = _bind_result(world, rec, res, "vec_of_cols", _depth(world, rec["h"]))
    if e is not None:
        e.tags.add("cols-of:%d" % src.eid)
    return e


@op("csv", "construct")
def _csv(world, rec, ctx):
    """read_csv from an in-memory file object (C03 monitors the dtypes of the resulting columns)"""
    import io
    S = serif()
    rows = rec["rows"]
    if rec.get("repeat"):       # compact form of a long file: header, then one line repeated, then the tail
        k, line, n = rec["repeat"]
        rows = rows[:k] + [line] * n + rows[k:]
    text = "\n".join(",".join(row) for row in rows) + ("\n" if rows else "")
    res = S.read_csv(io.StringIO(text), has_header=bool(rec.get("header", True)))
    return _bind_result(world, rec, res, "csv")


@op("vnew", "construct")
def _vnew(world, rec, ctx):
    S = serif()
    res = S.Vector.new(V.dec(rec["default"]), rec["n"], typesafe=bool(rec.get("typesafe")))
    return _bind_result(world, rec, res, "vnew")


@op("tab_dict", "construct")
def _tab_dict(world, rec, ctx):
    S = serif()
    d = {}
    for name, spec in rec["cols"]:
        d[V.dec(name)] = mk_val(world, spec, ctx)
    res = S.Table(d)
    return _bind_result(world, rec, res, "tab_dict", _depth(world, *[s.get("h") for _, s in rec["cols"] if s.get("h")]))


@op("tab_vecs", "construct")
def _tab_vecs(world, rec, ctx):
    S = serif()
    objs = [world.obj(h, "vec") for h in rec["hs"]]
    how = rec.get("how", "Table")
    if how == "Table":
        res = S.Table(objs)
    elif how == "TableTuple":
        res = S.Table(tuple(objs))
    elif how == "Vector":
        res = S.Vector(objs)
    else:
        res = S.Vector(tuple(objs))
    return _bind_result(world, rec, res, "tab_vecs:" + how, _depth(world, *rec["hs"]))


@op("tab_empty", "construct")
def _tab_empty(world, rec, ctx):
    S = serif()
    how = rec.get("how", "dict")
    res = S.Table({}) if how == "dict" else (S.Table(()) if how == "tuple" else S.Table())
    return _bind_result(world, rec, res, "tab_empty")


@op("deepcopy", "derive")
def _deepcopy(world, rec, ctx):
    res = _copy.deepcopy(world.obj(rec["h"]))
    return _bind_result(world, rec, res, "deepcopy", _depth(world, rec["h"]))


# ----------------------------------------------------------------------------
# derivations
# ----------------------------------------------------------------------------

@op("copy", "derive")
def _copy_op(world, rec, ctx):
    res = world.obj(rec["h"]).copy()
    return _bind_result(world, rec, res, "copy", _depth(world, rec["h"]))


@op("getitem", "derive")
def _getitem(world, rec, ctx):
    o = world.obj(rec["h"])
    key = mk_key(world, rec["key"], ctx)
    res = o[key]
    if _is_serif(res) and type(res).__name__ != "Row":
        return _bind_result(world, rec, res, "getitem:" + rec["key"]["k"], _depth(world, rec["h"]))
    if type(res).__name__ == "Row":
        # a Row obtained by indexing is a vector the program now holds: a later write through the
        # table or a column must not change what it shows (on this code base it is a snapshot)
        ctx.result_scalar = ("row", tuple(V.tv(x) for x in res))
        e = world.bind(rec.get("out"), res, role=("owned",), born="row", depth=_depth(world, rec["h"]))
        if e is not None:
            e.tags.add("row")
            # the names this row answers to when it is handed out (unambiguous accessors only)
            from .gen import simple_accessor
            try:
                names = list(o.column_names())
                for j in range(len(names)):
                    acc = simple_accessor(names, j)
                    if acc is not None:
                        e.tags.add("acc:" + acc)
            except Exception as ex:
                ex = None
        return e
    ctx.result_scalar = V.tv(res)
    return None


@op("rowseal", "derive")
def _rowseal(world, rec, ctx):
    """old = t[i], kept *without looking at it*: what it must show later is read from the table's
    columns now, not from the row (a harness that reads every object it gets would hide a row that
    takes its values lazily)"""
    o = world.obj(rec["h"], "tab")
    i = rec["i"]
    cols = o.cols()
    if not cols or not (-len(o) <= i < len(o)):
        raise SkipOp("row out of range")
    expected = [V.tv(c[i]) for c in cols]
    res = o[i]
    if type(res).__name__ != "Row":
        raise SkipOp("not a row")
    world.sealed[rec["name"]] = (res, expected)
    ctx.result_scalar = ("sealed", len(expected))
    return None


@op("rowopen", "read")
def _rowopen(world, rec, ctx):
    ent = world.sealed.pop(rec["name"], None)
    if ent is None:
        raise SkipOp("no sealed row")
    row, expected = ent
    how = rec.get("how", "iter")
    if how == "iter":
        got = [V.tv(x) for x in row]
    elif how == "index":
        got = [V.tv(row[j]) for j in range(len(expected))]
    else:
        got = [V.tv(x) for x in row[:]]
    ctx.extra["sealed"] = {"ok": got == expected, "expected": expected, "got": got, "how": how}
    ctx.result_scalar = ("opened", got)
    return None


@op("t2d", "derive")
def _t2d(world, rec, ctx):
    o = world.obj(rec["h"], "tab")
    rows = mk_key(world, rec["rows"], ctx)
    cols = mk_key(world, rec["cols"], ctx)
    res = o[rows, cols] if not rec.get("swap") else o[cols, rows]
    if _is_serif(res) and type(res).__name__ != "Row":
        # a single column taken out of the freshly sliced table is owned data
        return _bind_result(world, rec, res, "t2d", _depth(world, rec["h"]))
    ctx.result_scalar = V.tv(res) if not _is_serif(res) else None
    return None


@op("rshift", "derive")
def _rshift(world, rec, ctx):
    o = world.obj(rec["h"])
    other = mk_val(world, rec["other"], ctx)
    res = (other >> o) if rec.get("refl") else (o >> other)
    hs = [rec["h"]] + ([rec["other"]["h"]] if rec["other"]["k"] == "h" else [])
    return _bind_result(world, rec, res, "rshift:" + rec["other"]["k"], _depth(world, *hs))


@op("irshift", "derive")
def _irshift(world, rec, ctx):
    """t >>= x : the augmented form; the handle is rebound to whatever it yields"""
    e = world.get(rec["h"])
    o = e.obj
    other = mk_val(world, rec["other"], ctx)
    o >>= other
    if o is e.obj:
        ctx.writer = e.eid          # updated in place: a write through this handle
        return None
    return _bind_result(world, rec, o, "irshift", _depth(world, rec["h"]))


@op("lshift", "derive")
def _lshift(world, rec, ctx):
    o = world.obj(rec["h"])
    other = mk_val(world, rec["other"], ctx)
    res = (other << o) if rec.get("refl") else (o << other)
    hs = [rec["h"]] + ([rec["other"]["h"]] if rec["other"]["k"] == "h" else [])
    return _bind_result(world, rec, res, "lshift:" + rec["other"]["k"], _depth(world, *hs))


@op("T", "derive")
def _T(world, rec, ctx):
    res = world.obj(rec["h"]).T
    return _bind_result(world, rec, res, "T", _depth(world, rec["h"]))


_BIN = {"add": operator.add, "sub": operator.sub, "mul": operator.mul, "truediv": operator.truediv,
        "floordiv": operator.floordiv, "mod": operator.mod, "pow": operator.pow}
_CMP = {"eq": operator.eq, "ne": operator.ne, "lt": operator.lt, "le": operator.le, "gt": operator.gt,
        "ge": operator.ge, "and": operator.and_, "or": operator.or_, "xor": operator.xor}
_UN = {"neg": operator.neg, "pos": operator.pos, "abs": operator.abs, "invert": operator.invert}


@op("binop", "derive")
def _binop(world, rec, ctx):
    o = world.obj(rec["h"])
    other = mk_val(world, rec["other"], ctx)
    fn = _BIN.get(rec["fn"]) or _CMP[rec["fn"]]
    res = fn(other, o) if rec.get("refl") else fn(o, other)
    hs = [rec["h"]] + ([rec["other"]["h"]] if rec["other"]["k"] == "h" else [])
    return _bind_result(world, rec, res, "binop", _depth(world, *hs))


@op("unop", "derive")
def _unop(world, rec, ctx):
    res = _UN[rec["fn"]](world.obj(rec["h"]))
    return _bind_result(world, rec, res, "unop", _depth(world, rec["h"]))


_LOOKUP = {1: "one", 2: "two", "a": "A", True: "yes", 0.5: "half"}
_TYPES = {"int": int, "float": float, "str": str, "bool": bool, "complex": complex,
          "date": _dt.date, "datetime": _dt.datetime, "object": object,
          # cast() also takes a plain callable: a lookup that answers None for unknown codes, a halving function
          "fn_lookup": lambda x: _LOOKUP.get(x) if isinstance(x, (int, float, str, bool)) else None,
          "fn_half": lambda x: x / 2}


@op("cast", "derive")
def _cast(world, rec, ctx):
    res = world.obj(rec["h"], "vec").cast(_TYPES[rec["to"]])
    return _bind_result(world, rec, res, "cast", _depth(world, rec["h"]))


@op("fillna", "derive")
def _fillna(world, rec, ctx):
    res = world.obj(rec["h"], "vec").fillna(V.dec(rec["v"]))
    return _bind_result(world, rec, res, "fillna", _depth(world, rec["h"]))


@op("v0", "derive")
def _v0(world, rec, ctx):
    """zero-argument vector methods returning a new vector"""
    o = world.obj(rec["h"], "vec")
    fn = rec["fn"]
    if fn not in ("dropna", "isna", "unique", "to_object"):
        raise HarnessError(fn)
    res = getattr(o, fn)()
    return _bind_result(world, rec, res, fn, _depth(world, rec["h"]))


@op("method", "derive")
def _method(world, rec, ctx):
    o = world.obj(rec["h"], "vec")
    name = rec["name"]
    if name.startswith("_"):
        raise HarnessError(name)
    attr = getattr(o, name)
    if rec.get("prop"):
        res = attr
    else:
        res = attr(*V.dec_list(rec.get("args", [])))
    return _bind_result(world, rec, res, "method", _depth(world, rec["h"]))


def _colspecs(world, specs, tab=None):
    out = []
    for s in specs:
        if s["k"] == "str":
            out.append(s["v"])
        elif s["k"] == "col":
            if tab is None or s["j"] >= len(tab.cols()):
                raise SkipOp("no such column")
            out.append(tab.cols()[s["j"]])
        elif s["k"] == "h":
            out.append(world.obj(s["h"], "vec"))
        elif s["k"] == "vec":
            out.append(serif().Vector(V.dec_list(s["v"]), name=V.dec(s.get("name"))))
        else:
            raise HarnessError("bad colspec")
    return out


def _one_or_list(xs, single):
    return xs[0] if (single and len(xs) == 1) else xs


@op("sort", "derive")
def _sort(world, rec, ctx):
    o = world.obj(rec["h"])
    if not world.get(rec["h"]).is_table:
        res = o.sort_by(reverse=rec.get("reverse", False), na_last=rec.get("na_last", True))
    else:
        by = _one_or_list(_colspecs(world, rec["by"], o), rec.get("single"))
        res = o.sort_by(by, reverse=rec.get("reverse", False), na_last=rec.get("na_last", True))
    return _bind_result(world, rec, res, "sort", _depth(world, rec["h"]))


@op("join", "derive")
def _join(world, rec, ctx):
    l = world.obj(rec["h"], "tab")
    r = world.obj(rec["other"], "tab")
    lon = _one_or_list(_colspecs(world, rec["lon"], l), rec.get("single"))
    ron = _one_or_list(_colspecs(world, rec["ron"], r), rec.get("single"))
    kw = {}
    if "expect" in rec:
        kw["expect"] = rec["expect"]
    res = getattr(l, rec["kind"])(r, lon, ron, **kw)
    return _bind_result(world, rec, res, rec["kind"], _depth(world, rec["h"], rec["other"]))


_APPLY = {
    "len": lambda vals: len(vals),
    "first": lambda vals: vals[0] if vals else None,
    "nn": lambda vals: sum(1 for v in vals if v is not None),
    "last": lambda vals: vals[-1] if vals else None,
    # a callback that works in place on the list it is given (a typical median helper does)
    "rev": lambda vals: (vals.reverse(), len(vals))[1],
}


@op("agg", "derive")
def _agg(world, rec, ctx):
    t = world.obj(rec["h"], "tab")
    kw = {}
    for k in ("sum_over", "mean_over", "min_over", "max_over", "stdev_over", "count_over"):
        if k in rec:
            kw[k] = _one_or_list(_colspecs(world, rec[k], t), rec.get("single"))
    if "apply" in rec:
        ap = {}
        for a in rec["apply"]:
            f = FFunc(_APPLY[a["f"]], ctx.ticker)
            ctx.ffuncs.append((a["name"], f))
            ap[a["name"]] = (_colspecs(world, [a["col"]], t)[0], f)
        kw["apply"] = ap
    over = _one_or_list(_colspecs(world, rec["over"], t), rec.get("single"))
    res = getattr(t, rec["fn"])(over, **kw)
    return _bind_result(world, rec, res, rec["fn"], _depth(world, rec["h"]))


@op("reduce", "read")
def _reduce(world, rec, ctx):
    o = world.obj(rec["h"])
    if rec["fn"] not in ("sum", "mean", "min", "max", "stdev", "any", "all"):
        raise HarnessError(rec["fn"])
    res = getattr(o, rec["fn"])()
    ctx.result_scalar = V.tv(res) if not _is_serif(res) else None
    return None


# ----------------------------------------------------------------------------
# views
# ----------------------------------------------------------------------------

@op("view", "view")
def _view(world, rec, ctx):
    te = world.get(rec["t"], "tab")
    t = te.obj
    how = rec["how"]
    if how == "cols":
        res = t.cols()[rec["i"]]
    elif how == "colsi":
        res = t.cols(rec["i"])
    elif how == "str":
        res = t[rec["key"]]
    elif how == "attr":
        res = getattr(t, rec["key"])
    else:
        raise HarnessError(how)
    if not _is_serif(res):
        raise SkipOp("view did not return a column")
    return world.bind(rec.get("out"), res, role=("view", te.eid), born="view:" + how, depth=te.depth)


# ----------------------------------------------------------------------------
# in-place
# ----------------------------------------------------------------------------

@op("set", "write")
def _set(world, rec, ctx):
    e = world.get(rec["h"], "vec")
    ctx.writer = e.eid
    key = mk_key(world, rec["key"], ctx)
    val = mk_val(world, rec["val"], ctx)
    if rec.get("reenter") is not None:
        # a caller-supplied value that *looks at the vector* while the library is reading it
        # (time of check vs time of use inside one call): at call-back k it reads fingerprint()
        target = e.obj
        ctx.ticker.reenter_at = rec["reenter"]
        ctx.ticker.reenter_fn = lambda: target.fingerprint()
    e.obj[key] = val
    return None


@op("writeback", "write")
def _writeback(world, rec, ctx):
    """v[i] = v[i] (or v[0:0] = [] for an empty vector): a write that cannot fail for
    index or type reasons, so only the alias decision is visible"""
    e = world.get(rec["h"], "vec")
    ctx.writer = e.eid
    v = e.obj
    n = len(v)
    if n == 0:
        v[0:0] = []
    else:
        i = rec.get("i", 0) % n
        v[i] = v[i]
    return None


@op("hammer", "write")
def _hammer(world, rec, ctx):
    """many writes in a row to one vector (a fill loop): v[i % n] = vals[j % len(vals)], k times"""
    e = world.get(rec["h"], "vec")
    ctx.writer = e.eid
    v = e.obj
    n = len(v)
    if n == 0:
        raise SkipOp("empty")
    vals = V.dec_list(rec["vals"])
    for j in range(rec["k"]):
        v[(rec.get("start", 0) + j) % n] = vals[j % len(vals)]
    return None


@op("tset", "write")
def _tset(world, rec, ctx):
    e = world.get(rec["t"], "tab")
    ctx.writer = e.eid
    rows = mk_key(world, rec["rows"], ctx)
    val = mk_val(world, rec["val"], ctx)
    if rec.get("cols") is None:
        e.obj[rows] = val
    else:
        cols = mk_key(world, rec["cols"], ctx)
        e.obj[rows, cols] = val
    return None


@op("setattr", "write")
def _setattr(world, rec, ctx):
    e = world.get(rec["t"], "tab")
    ctx.writer = e.eid
    val = mk_val(world, rec["val"], ctx)
    if rec["acc"].startswith("_"):
        raise HarnessError("private attribute")
    setattr(e.obj, rec["acc"], val)
    return None


@op("setname", "rename")
def _setname(world, rec, ctx):
    e = world.get(rec["h"])
    ctx.writer = e.eid
    e.obj.name = V.dec(rec["name"])
    return None


@op("alias", "rename")
def _alias(world, rec, ctx):
    e = world.get(rec["h"])
    ctx.writer = e.eid
    e.obj.alias(V.dec(rec["name"]))
    return None


@op("rencol", "rename")
def _rencol(world, rec, ctx):
    e = world.get(rec["t"], "tab")
    ctx.writer = e.eid
    e.obj.rename_column(V.dec(rec["old"]), V.dec(rec["new"]))
    return None


def _names_arg(spec, ctx):
    vals = V.dec_list(spec["v"])
    if spec.get("fname"):
        vals = [FName(v, ctx.ticker) if isinstance(v, str) else v for v in vals]
    k = spec.get("k", "list")
    if k == "list":
        return vals
    if k == "tuple":
        return tuple(vals)
    return make_seq(k, vals, ctx.ticker)


@op("rencols", "rename")
def _rencols(world, rec, ctx):
    e = world.get(rec["t"], "tab")
    ctx.writer = e.eid
    olds = _names_arg(rec["olds"], ctx)
    news = _names_arg(rec["news"], ctx)
    e.obj.rename_columns(olds, news)
    return None


# ----------------------------------------------------------------------------
# read-only probes
# ----------------------------------------------------------------------------

@op("read", "read")
def _read(world, rec, ctx):
    o = world.obj(rec["h"])
    what = rec["what"]
    if what == "repr":
        r = repr(o)
        ctx.result_scalar = ("repr", len(r))
    elif what == "str":
        ctx.result_scalar = ("str", len(str(o)))
    elif what == "fp":
        fp = o.fingerprint()
        ctx.extra["fp"] = fp          # never logged raw (hash-seed dependent)
    elif what == "schema":
        s = o.schema()
        ctx.result_scalar = ("schema", repr(s))
    elif what == "len":
        ctx.result_scalar = ("len", len(o))
    elif what == "shape":
        ctx.result_scalar = ("shape", tuple(o.shape))
    elif what == "dir":
        d = dir(o)
        ctx.extra["dir"] = d
        ctx.result_scalar = ("dir", len(set(d) - set(object.__dir__(o))))    # advertised names only
    elif what == "colnames":
        ctx.result_scalar = ("colnames", tuple(V.tv(n) for n in o.column_names()))
    elif what == "peek":
        p = o.peek()
        ctx.result_scalar = ("peek", len(p))
    elif what == "iter":
        rows = [tuple(V.tv(x) for x in r) for r in o]
        ctx.result_scalar = ("iter", len(rows))
    elif what == "getattr":
        # attribute probe on a table; the name comes from the trace
        if rec["name"].startswith("_"):
            raise HarnessError("private")
        r = getattr(o, rec["name"])
        ctx.extra["getattr"] = r
        ctx.result_scalar = ("getattr", _is_serif(r))
    else:
        raise HarnessError(what)
    return None


# ----------------------------------------------------------------------------
# lifetime / environment
# ----------------------------------------------------------------------------

@op("drop", "life")
def _drop(world, rec, ctx):
    if rec["h"] not in world.handles:
        raise SkipOp("no handle")
    world.unbind(rec["h"])
    return None


@op("park", "life")
def _park(world, rec, ctx):
    """drop the handle but park the object in a reference cycle: unreachable for the
    program, alive for weak references until a collect step"""
    if rec["h"] not in world.handles:
        raise SkipOp("no handle")
    e = world.handles[rec["h"]]
    obj = e.obj
    for n in list(e.names):
        world.unbind(n)
    cyc = [obj]
    cyc.append(cyc)
    world.zombies.append(True)
    ctx.extra["parked"] = True
    del cyc, obj, e
    return None


@op("collect", "life")
def _collect(world, rec, ctx):
    n = gc.collect()
    world.zombies = []
    ctx.result_scalar = ("collected", n > 0)
    return None


@op("repr_rows", "life")
def _repr_rows(world, rec, ctx):
    serif().set_repr_rows(rec["n"])
    return None


# ----------------------------------------------------------------------------

def exec_op(world, rec, fault_at=None):
    """run one record; returns (outcome dict, ctx)"""
    fn = OPS.get(rec["op"])
    if fn is None:
        raise HarnessError("unknown op %r" % rec["op"])
    fa = fault_at
    if fa is None and isinstance(rec.get("fault"), dict):
        fa = rec["fault"].get("at")
    ctx = Ctx(fa)
    out = {"st": "ok", "exc": None, "injected": False, "res": None, "kind": KIND[rec["op"]], "writer": None}
    try:
        if rec.get("werr"):
            # environment fault: the interpreter's warning filter is escalated to "error" for the
            # duration of this one operation (python -W error / a test runner's filterwarnings)
            with warnings.catch_warnings():
                warnings.simplefilter("error")
                e = fn(world, rec, ctx)
        else:
            e = fn(world, rec, ctx)
        if e is not None:
            out["res"] = e.eid
    except SkipOp:
        out["st"] = "skip"
    except HarnessError:
        raise
    except InjectedFault:
        out["st"] = "exc"
        out["exc"] = "InjectedFault"
        out["injected"] = True
    except RecursionError:
        out["st"] = "exc"
        out["exc"] = "RecursionError"
    except Exception as ex:  # an operation-level exception is an outcome
        out["st"] = "exc"
        out["exc"] = type(ex).__name__
        out["warning"] = isinstance(ex, Warning)
        out["msg"] = str(ex)[:120]
        ex = None
    out["writer"] = ctx.writer
    out["ticks"] = ctx.ticker.n
    out["fired"] = ctx.ticker.fired
    return out, ctx
