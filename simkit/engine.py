"""One simulated run: generate-and-execute, or replay, a trace under a set of oracles."""
import gc
import hashlib
import json
import random
import warnings
from collections import Counter

from . import values as V
from .ops import exec_op, KIND
from .world import World, HarnessError, snap_any, serif
from .vid import VidAllocator, install


class Violation:
    __slots__ = ("prop", "clause", "detail", "sig", "step")

    def __init__(self, prop, clause, detail, sig=None, step=None):
        self.prop = prop
        self.clause = clause
        self.detail = detail
        self.sig = sig or {}
        self.step = step

    def to_json(self):
        return {"property": self.prop, "clause": self.clause, "detail": self.detail, "sig": self.sig, "step": self.step}


class Oracle:
    prop = "C00"

    def start(self, env):
        pass

    def before(self, env, rec):
        return None

    def after(self, env, rec, out, ctx, pre):
        return []

    def finish(self, env):
        return []


class Env:
    def __init__(self):
        self.world = World()
        self.vid = None
        self.prev = {}       # eid -> snapshot before the current step
        self.cur = {}        # eid -> snapshot after it
        self.stats = {"ops": Counter(), "exc": Counter(), "faults": Counter(), "probes": Counter(), "outcomes": Counter()}
        self.states = set()
        self.hasher = hashlib.sha256()
        self.step = 0
        self.log = []        # compact human-readable event lines (bounded)

    def probe(self, name, n=1):
        self.stats["probes"][name] += n

    def snapshot(self):
        out = {}
        for e in self.world.live_entries():
            s = snap_any(e.obj)
            if "row" in e.tags:
                # a held Row also shows values *by name*: part of what it shows
                named = []
                for t in sorted(e.tags):
                    if t.startswith("acc:"):
                        try:
                            named.append((t[4:], V.tv(getattr(e.obj, t[4:]))))
                        except Exception as ex:
                            named.append((t[4:], ("raises", type(ex).__name__)))
                            ex = None
                s = s + (("by-name", tuple(named)),)
            out[e.eid] = s
        return out


_INSTALLED = None


def prepare_process():
    """once per run-process: determinism-relevant global setup"""
    global _INSTALLED
    warnings.simplefilter("ignore")
    gc.disable()
    serif()
    if _INSTALLED is None:
        _INSTALLED = install(VidAllocator())
    return _INSTALLED


def seed_for(check, seed, run_index):
    h = hashlib.sha256(("%d:%s:%d" % (seed, check, run_index)).encode()).digest()
    return int.from_bytes(h[:8], "big")


def _abs_entry(env, e):
    s = env.cur.get(e.eid)
    if s is None:
        return None
    if s[0] == "V":
        sch = s[3]
        return ("V", sch[0] if sch else None, sch[1] if sch else None, min(len(s[1]), 3), e.role[0], s[2][1] != "None",
                min(e.depth, 3))
    if s[0] == "T":
        kinds = tuple(sorted({(c[3][0] if (c[0] == "V" and c[3]) else None) for c in s[2]}, key=str))
        return ("T", min(len(s[1]), 4), min(s[3], 3), e.role[0], kinds, min(e.depth, 3))
    return (s[0],)


def _abstract(env, rec, out):
    """abstract state in which the property had something to say: the operation (kind, key
    form, value form, outcome) together with the abstractions of the objects it involved
    (class, dtype kind, nullable, length bucket, role, named?, derivation depth) and a
    coarse picture of the rest of the world (how many tables / views are alive)."""
    w = env.world
    names = []
    for k in ("h", "t", "out", "other"):
        v = rec.get(k)
        if isinstance(v, str):
            names.append(v)
        elif isinstance(v, dict) and isinstance(v.get("h"), str):
            names.append(v["h"])
    if isinstance(rec.get("val"), dict) and isinstance(rec["val"].get("h"), str):
        names.append(rec["val"]["h"])
    names.extend(rec.get("hs", []))
    inv = []
    seen = set()
    for n in names:
        e = w.handles.get(n)
        if e is not None and e.eid not in seen:
            seen.add(e.eid)
            inv.append(_abs_entry(env, e))
    ntab = sum(1 for e in w.entries.values() if e.is_table)
    nview = sum(1 for e in w.entries.values() if e.role[0] == "view")
    key = repr((rec["op"], (rec.get("key") or {}).get("k") if isinstance(rec.get("key"), dict) else None,
                (rec.get("val") or {}).get("k") if isinstance(rec.get("val"), dict) else None,
                rec.get("fn"), rec.get("how"), rec.get("what"), rec.get("variant"), bool(rec.get("fault")), (rec.get("vid") or {}).get("p"),
                out["st"], out["exc"], sorted(inv, key=repr), min(ntab, 3), min(nview, 3)))
    return hashlib.blake2b(key.encode(), digest_size=8).hexdigest()


def run(oracles, trace=None, gen=None, rng=None, max_steps=40, vid_knobs=None, stop_on_violation=True,
        keep_log=False, nontrivial=None):
    """execute a run. Exactly one of (trace) or (gen + rng) is given.
    Returns dict(trace, digest, violations, stats, states, steps)."""
    alloc = prepare_process()
    env = Env()
    env.vid = alloc
    for o in oracles:
        o.start(env)
    out_trace = []
    viols = []
    n = len(trace) if trace is not None else max_steps
    env.cur = env.snapshot()
    for i in range(n):
        env.step = i
        if trace is not None:
            rec = trace[i]
        else:
            rec = gen.next(env.world)
            # execute exactly what a replay will execute: the JSON image of the record (fresh
            # string / list objects, never the generator's own literals)
            rec = json.loads(json.dumps(rec))
            if vid_knobs:
                pol = rng.choices(["fresh", "lifo", "adv"], vid_knobs)[0]
                if pol != "fresh":
                    rec["vid"] = {"p": pol, "k": rng.randrange(1 << 16)}
        out_trace.append(rec)
        vp = rec.get("vid")
        if vp:
            alloc.set_plan(vp["p"], vp["k"])
        else:
            alloc.set_plan("fresh", 0)
        env.prev = env.cur
        pres = [o.before(env, rec) for o in oracles]
        out, ctx = exec_op(env.world, rec)
        alloc.set_plan("fresh", 0)
        alloc.sweep()
        env.cur = env.snapshot()
        env.stats["ops"][rec["op"]] += 1
        env.stats["outcomes"][out["st"]] += 1
        if out["exc"]:
            env.stats["exc"][out["exc"]] += 1
        if out["injected"]:
            env.stats["faults"]["seq:" + str(out["fired"])] += 1
        elif out["st"] == "exc":
            if rec.get("nat"):
                env.stats["faults"]["natural:" + rec["nat"]] += 1
            if rec.get("ragged"):
                env.stats["faults"]["ragged"] += 1
        if vp and out["st"] != "skip":
            env.stats["faults"]["identity:" + vp["p"]] += 1
        if rec.get("werr") and out.get("warning"):
            env.stats["faults"]["warning:error"] += 1
        if rec["op"] == "park" and out["st"] == "ok":
            env.stats["faults"]["gc:defer"] += 1
        if rec["op"] == "collect":
            env.stats["faults"]["gc:collect"] += 1
        for o, pre in zip(oracles, pres):
            vs = o.after(env, rec, out, ctx, pre)
            for v in vs:
                v.step = i
            viols.extend(vs)
        line = json.dumps([rec, out["st"], out["exc"], ctx.result_scalar, sorted(env.cur.items())],
                          sort_keys=True, default=repr)
        env.hasher.update(line.encode())
        if keep_log:
            env.log.append("%d %s -> %s%s" % (i, json.dumps(rec, sort_keys=True), out["st"],
                                              (":" + out["exc"]) if out["exc"] else ""))
        if out["st"] != "skip":
            env.states.add(_abstract(env, rec, out))
        del ctx
        if viols and stop_on_violation:
            break
    if not viols:
        for o in oracles:
            viols.extend(o.finish(env))
    st = env.stats
    st["vid"] = dict(alloc.stats)
    res = {
        "trace": out_trace,
        "digest": env.hasher.hexdigest(),
        "violations": [v.to_json() for v in viols],
        "stats": {k: dict(v) for k, v in st.items()},
        "states": sorted(env.states),
        "steps": len(out_trace),
    }
    if keep_log:
        res["log"] = env.log
    return res
