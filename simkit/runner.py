"""Fork-per-run execution on a pool of pristine workers, aggregation, determinism resampling."""
import json
import os
import random
import signal
import subprocess
import sys
import time
import traceback
from collections import Counter
from concurrent.futures import ProcessPoolExecutor, as_completed
import multiprocessing

RUN_TIMEOUT_S = 120


def _child_main(fn, args, wfd):
    """runs in the forked child"""
    try:
        signal.alarm(RUN_TIMEOUT_S)
        res = fn(*args)
        data = json.dumps({"ok": True, "res": res}, default=repr)
    except BaseException as ex:  # harness error: reported, never a violation
        data = json.dumps({"ok": False, "err": "%s: %s" % (type(ex).__name__, ex),
                           "tb": traceback.format_exc()[-2000:]})
    try:
        with os.fdopen(wfd, "w") as f:
            f.write(data)
    finally:
        os._exit(0)


def fork_call(fn, args):
    """call fn(*args) in a forked child; returns ('ok', result) | ('err', text)"""
    rfd, wfd = os.pipe()
    pid = os.fork()
    if pid == 0:
        os.close(rfd)
        _child_main(fn, args, wfd)
    os.close(wfd)
    chunks = []
    with os.fdopen(rfd, "r") as f:
        chunks.append(f.read())
    _, status = os.waitpid(pid, 0)
    data = "".join(chunks)
    if not data:
        return ("err", "child died without result (status %d)" % status)
    try:
        j = json.loads(data)
    except Exception as ex:
        return ("err", "unparsable child output: %s" % ex)
    if j.get("ok"):
        return ("ok", j["res"])
    return ("err", j.get("err", "?") + "\n" + j.get("tb", ""))


def _init_worker(src):
    sys.path.insert(0, src)
    from . import engine
    engine.prepare_process()


def _batch(job):
    fn_mod, fn_name, check, seed, indices, keep_traces = job
    mod = __import__(fn_mod, fromlist=[fn_name])
    fn = getattr(mod, fn_name)
    out = []
    for idx in indices:
        t0 = time.time()
        st, res = fork_call(fn, (check, seed, idx))
        if st != "ok":
            out.append({"idx": idx, "error": res})
            continue
        res["idx"] = idx
        res["wall_ms"] = int((time.time() - t0) * 1000)
        if not res["violations"] and idx not in keep_traces:
            res.pop("trace", None)
        out.append(res)
    return out


class Aggregate:
    def __init__(self):
        self.runs = 0
        self.steps = 0
        self.stats = {}
        self.states = set()
        self.violating = []
        self.errors = []
        self.samples = []
        self.digests = {}
        self.slowest = (0, None)

    def add(self, res):
        if "error" in res:
            self.errors.append(res)
            return
        self.runs += 1
        self.steps += res["steps"]
        if res.get("wall_ms", 0) > self.slowest[0]:
            self.slowest = (res["wall_ms"], res["idx"])
        for k, d in res["stats"].items():
            c = self.stats.setdefault(k, Counter())
            c.update(d)
        if len(self.states) < 3000000:       # exact up to 3M, a lower bound beyond
            self.states.update(res["states"])
        self.digests[res["idx"]] = res["digest"]
        if res["violations"]:
            self.violating.append(res)
        elif "trace" in res and len(self.samples) < 3:
            self.samples.append({"run_index": res["idx"], "trace": res["trace"]})


def run_many(fn_mod, fn_name, check, seed, indices, procs=None, src=None, deadline=None, keep=3, batch=None,
             progress=None):
    """run fn(check, seed, idx) for idx in indices, each in its own forked child."""
    procs = procs or min(16, os.cpu_count() or 1)
    indices = list(indices)
    agg = Aggregate()
    if not indices:
        return agg
    batch = batch or max(1, min(50, len(indices) // (procs * 4) or 1))
    keep_traces = set(indices[:keep])
    jobs = [(fn_mod, fn_name, check, seed, indices[i:i + batch], keep_traces) for i in range(0, len(indices), batch)]
    ctx = multiprocessing.get_context("fork")
    src = src or os.environ.get("SERIF_SRC", "/repo/src")
    with ProcessPoolExecutor(max_workers=procs, mp_context=ctx, initializer=_init_worker, initargs=(src,)) as ex:
        futs = []
        it = iter(jobs)
        pending = set()
        # feed lazily so a deadline can stop launching runs
        def submit_more():
            while len(pending) < procs * 2:
                if deadline is not None and time.time() > deadline:
                    return
                j = next(it, None)
                if j is None:
                    return
                pending.add(ex.submit(_batch, j))
        submit_more()
        while pending:
            done = next(as_completed(list(pending)))
            pending.discard(done)
            for res in done.result():
                agg.add(res)
            submit_more()
    return agg


def digests_in_fresh_interpreter(check_script, check, seed, indices, hashseed, procs):
    """re-execute the given run indices in a fresh interpreter under another
    PYTHONHASHSEED and worker count; returns {idx: digest}"""
    env = dict(os.environ)
    env["PYTHONHASHSEED"] = str(hashseed)
    env["VERIF_REEXEC"] = "1"
    cmd = [sys.executable, check_script, check, "--digests", ",".join(str(i) for i in indices),
           "--seed", str(seed), "--procs", str(procs)]
    p = subprocess.run(cmd, env=env, capture_output=True, text=True, timeout=1800)
    if p.returncode != 0:
        raise RuntimeError("digest subprocess failed: %s\n%s" % (p.returncode, p.stderr[-2000:]))
    out = {}
    for line in p.stdout.splitlines():
        if line.startswith("DIGEST "):
            _, i, d = line.split()
            out[int(i)] = d
    return out
