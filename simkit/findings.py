"""Known findings: committed, read-only at run time. A violation is a known finding iff
its property and clause equal an entry's and every key of the entry's `match` dict
equals the corresponding key of the violation's signature. `fixed` entries are
documentation only and suppress nothing."""
import json
import os

PATH = os.path.join(os.path.dirname(os.path.dirname(os.path.abspath(__file__))), "known_findings.json")


def load():
    try:
        with open(PATH) as f:
            return json.load(f)
    except FileNotFoundError:
        return {"findings": [], "fixed": []}


def match(viol, known=None):
    known = known if known is not None else load()
    for k in known.get("findings", []):
        if k["property"] != viol["property"] or k["clause"] != viol["clause"]:
            continue
        sig = viol.get("sig", {})
        if all(sig.get(a) == b for a, b in k.get("match", {}).items()):
            return k
    return None
