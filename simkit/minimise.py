"""Delta-debugging minimiser over operation lists plus per-record simplification.
A candidate is kept only if the *same clause* (and same known/unknown signature key)
still fails when the candidate trace is re-executed in a fresh forked child."""
import copy
import json
import time

from .runner import fork_call


def _same(res, clause, sigkey):
    for v in res.get("violations", []):
        if v["clause"] == clause and (sigkey is None or _sigkey(v) == sigkey):
            return True
    return False


def _sigkey(v):
    return json.dumps(v.get("sig", {}), sort_keys=True)


def sigkey(v):
    return _sigkey(v)


def minimise(replay_fn, check, trace, clause, sigkey=None, budget=600, wall_s=240):
    """replay_fn(check, trace) -> result dict (module-level function, runs in a fork).
    Bounded by a number of replays and, as a safety net for traces with 70000-element vectors, by
    wall time: the bound only limits how far the trace is reduced, never what counts as failing."""
    calls = [0]
    deadline = time.monotonic() + wall_s

    def fails(t):
        if calls[0] >= budget or time.monotonic() > deadline:
            calls[0] = max(calls[0], budget)
            return False
        calls[0] += 1
        st, res = fork_call(replay_fn, (check, t))
        return st == "ok" and _same(res, clause, sigkey)

    cur = list(trace)
    # cut everything after the violating step
    st, res = fork_call(replay_fn, (check, cur))
    if st == "ok":
        for v in res.get("violations", []):
            if v["clause"] == clause and v.get("step") is not None:
                cand = cur[:v["step"] + 1]
                if fails(cand):
                    cur = cand
                break
    # ddmin
    n = 2
    while len(cur) >= 2 and calls[0] < budget:
        chunk = max(1, len(cur) // n)
        reduced = False
        for i in range(0, len(cur), chunk):
            cand = cur[:i] + cur[i + chunk:]
            if cand and fails(cand):
                cur = cand
                n = max(n - 1, 2)
                reduced = True
                break
        if not reduced:
            if chunk == 1:
                break
            n = min(len(cur), n * 2)
    # per-record simplification
    changed = True
    while changed and calls[0] < budget:
        changed = False
        for i, rec in enumerate(cur):
            for cand_rec in _simpler(rec):
                cand = cur[:i] + [cand_rec] + cur[i + 1:]
                if fails(cand):
                    cur = cand
                    changed = True
                    break
    return cur, calls[0]


def _simpler(rec):
    """yield simpler variants of one record"""
    if "vid" in rec:
        r = copy.deepcopy(rec)
        del r["vid"]
        yield r
    if "fault" in rec:
        r = copy.deepcopy(rec)
        del r["fault"]
        yield r
    if rec.get("op") == "vec" and len(rec.get("vals", [])) > 1:
        if len(rec["vals"]) > 8:
            r = copy.deepcopy(rec)
            r["vals"] = r["vals"][:len(r["vals"]) // 2]
            yield r
        r = copy.deepcopy(rec)
        r["vals"] = r["vals"][:-1]
        yield r
    if rec.get("op") == "vec" and "name" in rec:
        r = copy.deepcopy(rec)
        del r["name"]
        yield r
    if rec.get("op") == "tab_dict" and len(rec.get("cols", [])) > 1:
        for j in range(len(rec["cols"])):
            r = copy.deepcopy(rec)
            del r["cols"][j]
            yield r
    if rec.get("op") == "tab_vecs" and len(rec.get("hs", [])) > 1:
        for j in range(len(rec["hs"])):
            r = copy.deepcopy(rec)
            del r["hs"][j]
            yield r
