"""Evidence file writer (schema: /root/.vp/EVIDENCE.schema.json)."""
import json
import os

ROOT = os.path.dirname(os.path.dirname(os.path.abspath(__file__)))


def write(prop, tier, seed, level, coverage, wall_s, violations, assumptions):
    os.makedirs(os.path.join(ROOT, "evidence"), exist_ok=True)
    doc = {
        "property_id": prop,
        "tier": tier,
        "seed": int(seed),
        "level": level,
        "coverage": coverage,
        "assumptions": assumptions,
        "wall_s": round(float(wall_s), 3),
        "violations": int(violations),
    }
    path = os.path.join(ROOT, "evidence", prop + ".json")
    tmp = path + ".tmp"
    with open(tmp, "w") as f:
        json.dump(doc, f, indent=1, sort_keys=True, default=repr)
    os.replace(tmp, path)
    return path
