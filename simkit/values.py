"""Value encoding, the small collision-rich value domain, and exact content snapshots.

Nothing here draws randomness by itself (generators receive the run's PRNG) and
nothing reads raw hash() values, real id()s or clocks.
"""
import datetime as _dt
import decimal as _dec
import fractions as _frac
import math

# ----------------------------------------------------------------------------
# JSON encoding of element values
# ----------------------------------------------------------------------------

class IntSub(int):
    """an instance of a strict subclass of int (an IntEnum member, a numpy-like integer)"""


class StrSub(str):
    pass


class FloatSub(float):
    pass


class TCell(tuple):
    """generator-side marker: a tuple that is one cell value (encoded so that it comes back a plain tuple)"""


SUBS = {IntSub: int, StrSub: str, FloatSub: float}
_SUB_BY_NAME = {c.__name__: c for c in SUBS}
SUB_OF_KIND = {"int": IntSub, "str": StrSub, "float": FloatSub}


def enc(v):
    if type(v) in SUBS:
        return {"sub": type(v).__name__, "v": enc(SUBS[type(v)](v))}
    if type(v) is TCell:
        return {"tup": [enc(x) for x in v]}
    if v is None or isinstance(v, (bool, str)):
        return v
    if isinstance(v, int):
        return v
    if isinstance(v, float):
        if math.isnan(v):
            return {"f": "nan"}
        if math.isinf(v):
            return {"f": "inf" if v > 0 else "-inf"}
        return v
    if isinstance(v, complex):
        return {"c": [v.real, v.imag]}
    if isinstance(v, _dt.datetime):
        return {"dt": v.isoformat()}
    if isinstance(v, _dt.date):
        return {"d": v.isoformat()}
    if isinstance(v, (list, tuple)):
        return {"l": [enc(x) for x in v]}
    if isinstance(v, (bytes, bytearray)):
        return {"b": bytes(v).hex(), "ba": isinstance(v, bytearray)}
    if isinstance(v, _dec.Decimal):
        return {"dec": str(v)}
    if isinstance(v, _frac.Fraction):
        return {"frac": [v.numerator, v.denominator]}
    raise TypeError("cannot encode %r" % (type(v),))


def dec(j):
    if isinstance(j, dict):
        if "tup" in j:
            return tuple(dec(x) for x in j["tup"])
        if "sub" in j:
            return _SUB_BY_NAME[j["sub"]](dec(j["v"]))
        if "f" in j:
            return float(j["f"])
        if "c" in j:
            return complex(j["c"][0], j["c"][1])
        if "dt" in j:
            return _dt.datetime.fromisoformat(j["dt"])
        if "d" in j:
            return _dt.date.fromisoformat(j["d"])
        if "l" in j:
            return [dec(x) for x in j["l"]]
        if "b" in j:
            return bytearray.fromhex(j["b"]) if j.get("ba") else bytes.fromhex(j["b"])
        if "dec" in j:
            return _dec.Decimal(j["dec"])
        if "frac" in j:
            return _frac.Fraction(j["frac"][0], j["frac"][1])
        raise ValueError("bad encoded value %r" % (j,))
    return j


def dec_list(js):
    return [dec(x) for x in js]


def enc_list(vs):
    return [enc(x) for x in vs]


# ----------------------------------------------------------------------------
# Domain
# ----------------------------------------------------------------------------
D1 = _dt.date(2020, 1, 2)
D2 = _dt.date(2021, 3, 4)
D3 = _dt.date(1999, 12, 31)
DT1 = _dt.datetime(2020, 1, 2, 3, 4, 5)
DT2 = _dt.datetime(2021, 3, 4, 0, 0, 0)
DT3 = _dt.datetime(2020, 1, 2, 3, 4, 5, 1)      # differs from DT1 in the microsecond only
DT4 = _dt.datetime(2020, 1, 2, 3, 4, 5, 999999)

BIG = 10 ** 400            # overflows float()
M61 = 2 ** 61 - 1          # hash(M61) == hash(0)

POOLS = {
    "int": [-2, -1, 0, 1, 2, 3, 7, M61],
    "bool": [True, False],
    "float": [0.5, -1.5, 2.0, 3.25, 0.0, -0.0],
    "complex": [complex(1, 2), complex(0, -1)],
    "str": ["a", "b", "A", " a ", "", "zz"],
    "date": [D1, D2, D3],
    "datetime": [DT1, DT2, DT3, DT4],
    # "arbitrary other classes": uniform columns of these report their own type, mixtures degrade to object
    "bytes": [b"ab", b"\x07", b"", b"xyz"],
    "decimal": [_dec.Decimal("1.10"), _dec.Decimal("2"), _dec.Decimal("-0.5")],
    "fraction": [_frac.Fraction(1, 3), _frac.Fraction(2, 1), _frac.Fraction(-1, 2)],
    # record-like cells: a tuple is one element. Only profiles that ask for the kind "tcell" get them:
    # cells read back from live objects have kind "tuple", which is deliberately *not* a pool (a tuple
    # inside a row or value list is ambiguous with a nested sequence, which no property defines)
    "tcell": [TCell((1, 2)), TCell((3, 4)), TCell((1,)), TCell(()), TCell(("a", None)), TCell((2.5, 7)), TCell((3, 4, 5))],
}
RARE = {
    "int": [BIG],
    "float": [float("nan"), float("inf"), float("-inf")],
}
KINDS = ["int", "float", "str", "bool", "date", "complex", "datetime"]
KIND_W = [30, 18, 18, 10, 8, 4, 6]

# what may be written into a vector of that kind so that promotion happens
WIDER = {"bool": ["int", "float"], "int": ["float", "complex"], "float": ["complex"],
         "date": ["datetime"]}
NARROWER = {"int": ["bool"], "float": ["int", "bool"], "complex": ["float", "int"],
            "datetime": ["date"]}
INCOMPAT = {"int": ["str", "date"], "float": ["str", "date"], "bool": ["str"],
            "str": ["int", "float", "date"], "date": ["int", "str"],
            "complex": ["str"], "datetime": ["int", "str"]}


def pick_kind(rng, kinds=None):
    if kinds:
        return rng.choice(kinds)
    return rng.choices(KINDS, KIND_W)[0]


def pick_value(rng, kind, rare=0.03):
    if kind in RARE and rng.random() < rare:
        return rng.choice(RARE[kind])
    return rng.choice(POOLS[kind])


def gen_values(rng, kind, n, p_none=0.15, p_foreign=0.0, rare=0.03):
    out = []
    for _ in range(n):
        r = rng.random()
        if r < p_none:
            out.append(None)
        elif r < p_none + p_foreign:
            out.append(pick_value(rng, pick_kind(rng), rare))
        else:
            out.append(pick_value(rng, kind, rare))
    return out


def kind_of(v):
    """harness-side kind name of a python scalar (bool before int, datetime before date)."""
    if v is None:
        return None
    if isinstance(v, bool):
        return "bool"
    if isinstance(v, int):
        return "int"
    if isinstance(v, float):
        return "float"
    if isinstance(v, complex):
        return "complex"
    if isinstance(v, str):
        return "str"
    if isinstance(v, bytes):
        return "bytes"
    if isinstance(v, _dt.datetime):
        return "datetime"
    if isinstance(v, _dt.date):
        return "date"
    if isinstance(v, tuple):
        return "tuple"
    return type(v).__name__


# ----------------------------------------------------------------------------
# Exact, hash-free content descriptions
# ----------------------------------------------------------------------------

def tv(e):
    """(type name, repr) - exact and independent of PYTHONHASHSEED / addresses."""
    t = type(e)
    if t in (int, float, bool, str, complex, type(None), bytes, bytearray):
        return (t.__name__, repr(e))
    if t in SUBS:
        return (t.__name__, repr(SUBS[t](e)))
    if isinstance(e, (_dt.date, _dt.datetime)):
        return (t.__name__, e.isoformat())
    if isinstance(e, (list, tuple)):
        return (t.__name__, tuple(tv(x) for x in e))
    if t in (_dec.Decimal, _frac.Fraction):
        return (t.__name__, repr(e))
    # serif objects nested as elements are described by the caller; anything else
    # by type name only (its repr could embed an address)
    return (t.__name__, "<obj>")


def same_value(a, b):
    """type-and-value equality with NaN == NaN (used for 'unchanged')."""
    return tv(a) == tv(b)


def _nan_eq(x, y):
    return x == y or (math.isnan(x) and math.isnan(y))


def loose_eq(a, b):
    """value-only equality (== with NaN == NaN, also inside complex numbers)."""
    if isinstance(a, (float, complex)) and isinstance(b, (float, complex)) and not isinstance(a, bool) and not isinstance(b, bool):
        try:
            ca, cb = complex(a), complex(b)
            return _nan_eq(ca.real, cb.real) and _nan_eq(ca.imag, cb.imag)
        except Exception:
            pass
    try:
        return bool(a == b)
    except Exception:
        return False
